"""C11 - `with Upload objects anywhere in the variables it is a multipart form obeying the GraphQL multipart request
specification: every file position is null in operations, map lists exactly those paths, and each distinct Upload is
sent once`.

Bounded stand-in (exhaustive over a finite family of variables trees, native, never counted as proved) for
`_get_files_from_variables` / its nested `separate_files` of the four bundled clients, against an oracle written from
the statement (positions of the tree in document order; order of the paths inside one map entry and the numbering of
the files are not prescribed and are compared as sets).  Plus the whole request through `execute` with
httpx.MockTransport for a sample of the trees: the multipart body is decoded and the same statement checked on the wire.
"""
import datetime
import decimal
import importlib
import io
import pydantic
import typing
import uuid
import itertools
import json

from ariadne_codegen.client_generators.dependencies import base_model as BM

DEP = "ariadne_codegen.client_generators.dependencies."
CLIENTS = [("base_client", "BaseClient"), ("async_base_client", "AsyncBaseClient"),
           ("base_client_open_telemetry", "BaseClientOpenTelemetry"),
           ("async_base_client_open_telemetry", "AsyncBaseClientOpenTelemetry")]


def _uploads():
    """three distinct Upload objects; the last two share file name and content type (distinct uploads are distinct OBJECTS,
    whatever their attributes say)"""
    return [BM.Upload(filename="f0.txt" if i == 0 else "same.txt", content=io.BytesIO(f"content-{i}".encode()), content_type="text/plain")
            for i in range(3)]


def positions(tree, path="variables"):
    """(path, upload) for every Upload in the tree, document order; the statement's `file positions`"""
    if isinstance(tree, list):
        for i, v in enumerate(tree):
            yield from positions(v, f"{path}.{i}")
    elif isinstance(tree, dict):
        for k, v in tree.items():
            yield from positions(v, f"{path}.{k}")
    elif isinstance(tree, BM.Upload):
        yield path, tree


def nulled(tree):
    if isinstance(tree, list):
        return [nulled(v) for v in tree]
    if isinstance(tree, dict):
        return {k: nulled(v) for k, v in tree.items()}
    return None if isinstance(tree, BM.Upload) else tree


def check_separation(tree, result):
    """the statement on the triple (variables, files, map) returned for `tree`; -> list of violated clauses"""
    out_vars, files, fmap = result
    pos = list(positions(tree))
    bad = []
    if out_vars != nulled(tree):
        bad.append("every-file-position-is-null/everything-else-unchanged")
    distinct = []
    for _, u in pos:
        if not any(u is d for d in distinct):
            distinct.append(u)
    if len(files) != len(distinct) or set(files) != set(fmap):
        bad.append("each-distinct-upload-sent-once")
    else:
        sent = {}
        for key, (fn, content, ctype) in files.items():
            owner = [u for u in distinct if u.content is content and u.filename == fn and u.content_type == ctype]
            if len(owner) != 1 or id(owner[0]) in sent.values():
                bad.append("each-distinct-upload-sent-once")
                break
            sent[key] = id(owner[0])
        else:
            for key, paths in fmap.items():
                want = [p for p, u in pos if id(u) == sent[key]]
                if sorted(paths) != sorted(want):
                    bad.append("map-lists-exactly-the-paths-of-its-file")
                    break
    return bad


def _trees(tier):
    U = _uploads()
    leaves = [None, 1, U[0], U[1], U[2]]
    d1 = list(leaves)
    for n in range(0, 4):
        d1 += [list(c) for c in itertools.product(leaves, repeat=n)]
    d1 += [{"x": a} for a in leaves] + [{"x": a, "y": b} for a in leaves for b in leaves]
    # family 1: two top-level variables, each any depth-1 value
    step = 1 if tier != "quick" else 3
    for i, a in enumerate(d1):
        for j, b in enumerate(d1):
            if (i + j) % step == 0:
                yield {"a": a, "b": b}
    # family 2: depth 2/3 nesting, aliasing across branches
    for a, b, c, d, e in itertools.product(leaves, repeat=5):
        yield {"in": {"files": [a, b], "meta": {"cover": c}}, "list": [[d], {"k": [e, a]}]}
    # family 3: the same upload many times, after another one
    for perm in itertools.product(U[:2] + [None], repeat=5):
        yield {"files": list(perm)}


def bounded_separation(tier, seed):
    cases, fails = 0, []
    insts = []
    for m, k in CLIENTS:
        cls = getattr(importlib.import_module(DEP + m), k)
        insts.append((f"{DEP}{m}:{k}._get_files_from_variables", cls(url="http://localhost/graphql")))
    n_trees = 0
    for tree in _trees(tier):
        n_trees += 1
        results = []
        for name, inst in insts:
            cases += 1
            try:
                res = inst._get_files_from_variables(tree)
                bad = check_separation(tree, res)
            except Exception as e:      # noqa
                res, bad = None, [f"raises-{type(e).__name__}"]
            results.append(res)
            if bad and len(fails) < 20:
                fails.append(dict(inputs=dict(function=name, variables=_show(tree)), outcome=_show(res), failed=bad))
        if any(_show(r) != _show(results[0]) for r in results[1:]) and len(fails) < 20:
            fails.append(dict(inputs=dict(variables=_show(tree)), outcome=[_show(r) for r in results], failed=["four-clients-agree"]))
    for c in insts:
        close = getattr(c[1].http_client, "close", None)
        try:
            if close and not hasattr(c[1].http_client, "aclose"):
                close()
        except Exception:   # noqa
            pass
    return dict(function=f"{DEP}base_client:BaseClient._get_files_from_variables", name="bounded.upload-separation",
                kind="bounded stand-in (exhaustive, native)",
                domain=f"{n_trees} variables trees: two variables over all depth-1 values (leaves None/1/3 Uploads, lists of length <= 3, "
                       f"dicts of <= 2 keys{'' if tier != 'quick' else ', every 3rd pair'}), a depth-3 family with aliasing across branches, "
                       "all length-5 lists over 2 uploads and None; x 4 clients; oracle from the statement (positions in document order)",
                cases=cases, failed=len(fails), failures=fails)


def _show(v):
    if isinstance(v, BM.Upload):
        return f"<Upload {v.filename}>"
    if isinstance(v, tuple):
        return [_show(x) for x in v]
    if isinstance(v, list):
        return [_show(x) for x in v]
    if isinstance(v, dict):
        return {k: _show(x) for k, x in v.items()}
    if isinstance(v, io.BytesIO):
        return f"<bytes {v.getvalue()[:12]!r}>"
    return v


# ------------------------------------------------------------------------------------------ on the wire
# the operation text is opaque to the client: whitespace inside string literals and block strings must arrive untouched
QUERY_TEXT = 'query Q($note: String = "two  spaces   three") {\n  x(s: "a  b   c", b: """\n    block  text\n  """)\n}'


# a long operation (several kB, non-ASCII, fragments appended): the text travels whole, whatever its length
LONG_QUERY_TEXT = "query Long {\n" + "".join(f'  f{i}: item(note: "naïve text number {i} – with  double  spaces") {{ ...Bits }}\n' for i in range(120)) + \
    "}\n\nfragment Bits on Item {\n  id\n  name\n}\n"


def _decode_multipart(request):
    import email
    import email.policy
    ctype = request.headers["content-type"]
    msg = email.message_from_bytes(b"Content-Type: " + ctype.encode() + b"\r\n\r\n" + request.content, policy=email.policy.HTTP)
    parts = {}
    for part in msg.iter_parts():
        name = part.get_param("name", header="content-disposition")
        parts[name] = dict(filename=part.get_filename(), payload=part.get_payload(decode=True), ctype=part.get_content_type())
    return parts


def bounded_wire(tier, seed):
    """the request as httpx sends it: JSON without uploads, multipart with uploads; decoded and checked"""
    import asyncio
    import httpx
    cases, fails = 0, []
    model_cls = type("In", (BM.BaseModel,), {"__annotations__": {"file": BM.Upload, "n": int}})

    def build():
        U = _uploads()
        trees = [
            {"a": 1}, {}, None, {"a": BM.UNSET, "b": None},
            {"file": U[0]}, {"files": [U[0], U[1], U[0]]}, {"in": {"f": U[1], "g": [U[0], None, U[1]]}, "x": 3},
            {"m": model_cls(file=U[2], n=1), "again": U[2]}, {"l": [model_cls(file=U[0], n=2), model_cls(file=U[1], n=3)]},
            # uploads behind a first list element without upload; leaves that only pydantic's encoder can turn into JSON
            {"l": [None, U[0]]}, {"items": [{"n": 1}, {"f": U[1]}]},
            {"file": U[0], "when": datetime.datetime(2020, 1, 2, 3, 4, 5), "day": datetime.date(2020, 1, 2), "amount": decimal.Decimal("1.5")},
            {"when": datetime.datetime(2020, 1, 2, 3, 4, 5), "ids": [uuid.UUID(int=7)]},
        ]
        long_trees = [{"a": 1}, {"file": U[0]}, {"text": "long value " * 600}]
        return U, [(QUERY_TEXT, t) for t in trees] + [(LONG_QUERY_TEXT, t) for t in long_trees]
    U, work = build()
    n_trees = len(work) - 3
    for m, k in CLIENTS:
        mod = importlib.import_module(DEP + m)
        cls = getattr(mod, k)
        for tracer in ((None, "t") if k.endswith("OpenTelemetry") else (None,)):
            for index in range(len(work)):
                text, tree = work[index]
                cases += 1
                seen = []

                def handler(request):
                    seen.append(request)
                    return httpx.Response(200, json={"data": {}})
                kw = dict(url="http://localhost/graphql")
                if tracer:
                    kw["tracer"] = tracer
                try:
                    if "Async" in k:
                        client = cls(http_client=httpx.AsyncClient(transport=httpx.MockTransport(handler)), **kw)
                        asyncio.run(client.execute(text, operation_name="Q", variables=tree, headers={"X-T": "1"}))
                    else:
                        client = cls(http_client=httpx.Client(transport=httpx.MockTransport(handler)), **kw)
                        client.execute(text, operation_name="Q", variables=tree, headers={"X-T": "1"})
                    bad = _check_wire(tree, seen, client, text)
                except Exception as e:      # noqa
                    bad = [f"raises-{type(e).__name__}: {str(e)[:120]}"]
                # the Upload objects are the caller's: the same file may be attached to a later call (retry, second mutation)
                shown = None
                if any(u.content.closed for u in U):
                    bad = list(bad) + ["uploads-stay-usable-for-the-caller (content stream closed by the client)"]
                    shown = str(_show(tree))[:300]
                    U, work = build()
                else:
                    for u in U:
                        u.content.seek(0)
                if bad:
                    fails.append(dict(inputs=dict(client=k, tracer=bool(tracer), variables=shown or str(_show(tree))[:300], long_text=text is LONG_QUERY_TEXT), failed=bad, outcome=None))
    return dict(function=f"{DEP}base_client:BaseClient.execute", name="bounded.requests-on-the-wire",
                kind="bounded stand-in (end-to-end through httpx.MockTransport, native)",
                domain=f"{n_trees} variables trees (none, UNSET, uploads nested/aliased/inside generated models) x 4 clients x tracer on/off; + a 9 kB operation text with 3 trees (incl. a 6 kB string variable)",
                cases=cases, failed=len(fails), failures=fails)


def _jsonable(v):
    """JSON form of a converted variables tree (datetime / date / Decimal / UUID leaves as pydantic encodes them)"""
    from pydantic_core import to_jsonable_python
    return json.loads(json.dumps(v, default=to_jsonable_python))


def _converted(tree):
    """the variables the statement speaks of: UNSET top-level entries dropped, input models as objects of their set fields under the
    GraphQL names (aliases), lists item by item; an Upload stays the Upload object it is - wherever it sits"""
    def conv(v):
        if isinstance(v, pydantic.BaseModel):
            out = {}
            for name, info in type(v).model_fields.items():
                if name in v.model_fields_set:
                    out[info.alias or name] = conv(getattr(v, name))
            return out
        if isinstance(v, list):
            return [conv(x) for x in v]
        return v
    return {k: conv(v) for k, v in tree.items() if v is not BM.UNSET}


def _check_wire(tree, seen, client, text=None):
    text = QUERY_TEXT if text is None else text
    bad = []
    if len(seen) != 1:
        return ["exactly-one-request"]
    req = seen[0]
    conv = _converted(tree) if tree else {}        # (written from the statement, not taken from the client under check)
    pos = list(positions(conv))
    if req.headers.get("x-t") != "1" or req.method != "POST":
        bad.append("caller-headers-merged/post")
    if not pos:
        if req.headers.get("content-type") != "application/json":
            bad.append("json-content-type")
        body = json.loads(req.content)
        if body != {"query": text, "operationName": "Q", "variables": _jsonable(conv)}:
            bad.append("body-carries-exactly-query-operationName-variables")
        return bad
    if not req.headers.get("content-type", "").startswith("multipart/form-data"):
        return ["multipart-content-type"]
    parts = _decode_multipart(req)
    ops = json.loads(parts["operations"]["payload"])
    fmap = json.loads(parts["map"]["payload"])
    if ops != {"query": text, "operationName": "Q", "variables": _jsonable(nulled(conv))}:
        bad.append("operations-has-null-at-every-file-position")
    file_parts = {k: v for k, v in parts.items() if k not in ("operations", "map")}
    distinct = []
    for _, u in pos:
        if not any(u is d for d in distinct):
            distinct.append(u)
    if set(file_parts) != set(fmap) or len(file_parts) != len(distinct):
        bad.append("each-distinct-upload-sent-once")
        return bad
    for key, paths in fmap.items():
        owners = [u for u in distinct if u.filename == file_parts[key]["filename"] and u.content.getvalue() == file_parts[key]["payload"]]
        if len(owners) != 1:
            bad.append("file-part-is-the-upload")
            break
        if sorted(paths) != sorted(p for p, u in pos if u is owners[0]):
            bad.append("map-lists-exactly-the-paths-of-its-file")
            break
    return bad


if __name__ == "__main__":
    import sys
    t = sys.argv[1] if len(sys.argv) > 1 else "quick"
    for f in (bounded_separation, bounded_wire):
        r = f(t, 0)
        print(json.dumps({k: v for k, v in r.items() if k != "failures"}, indent=1)[:1500])
        print(json.dumps(r["failures"][:3], indent=1, default=str)[:3000])


# ------------------------------------------------------------------------------------------ the four clients agree
def _canonical_request(request):
    """what a server sees, without what legitimately varies between two sends (multipart boundary, lengths, user agent)"""
    headers = {k.lower(): v for k, v in request.headers.items() if k.lower() not in ("content-length", "user-agent", "host", "accept-encoding", "connection")}
    ctype = headers.get("content-type", "")
    if ctype.startswith("multipart/form-data"):
        headers["content-type"] = "multipart/form-data"
        parts = _decode_multipart(request)
        body = {k: (v if not isinstance(v, (bytes, bytearray)) else bytes(v)) for k, v in parts.items()} if isinstance(parts, dict) else parts
    else:
        body = json.loads(request.content) if request.content else None
    return dict(method=request.method, url=str(request.url), headers=headers, body=repr(body))


def bounded_agreement(tier, seed):
    """`The four bundled base clients (sync/async x plain/OpenTelemetry, tracer present or not) emit identical requests`:
    every configuration below is sent by all six client variants; what arrives must be the same (headers given to the
    constructor, to the call, both, next to a caller-supplied http client; uploads whose stream was already read, the same
    Upload in two successive calls; values only pydantic's encoder can serialise)."""
    import asyncio
    import httpx
    cases, fails = 0, []

    def variants():
        for m, k in CLIENTS:
            cls = getattr(importlib.import_module(DEP + m), k)
            for tracer in ((None, "t") if k.endswith("OpenTelemetry") else (None,)):
                yield f"{k}{'+tracer' if tracer else ''}", cls, tracer

    def scenarios():
        yield "constructor-headers-next-to-a-supplied-http-client", dict(headers={"X-Ctor": "c", "Authorization": "Bearer t"}), [dict(variables={"a": 1})]
        yield "constructor-and-call-headers", dict(headers={"X-Ctor": "c", "X-Both": "ctor"}), [dict(variables={"a": 1}, headers={"X-Both": "call", "X-Call": "1"})]
        yield "call-headers-and-extra-httpx-arguments", {}, [dict(variables=None, headers={"X-Call": "1"}, params={"p": "1"})]
        yield "content-type-given-by-the-caller", {}, [dict(variables={"a": 1}, headers={"Content-Type": "application/graphql+json"})]
        yield "content-type-given-by-the-caller-in-lower-case", {}, [dict(variables={"a": 1}, headers={"content-type": "application/graphql+json"})]
        # a failing transport: the error reaches the caller from every client, after one attempt
        yield "transport-error", {}, [dict(variables={"a": 1}, _fail="connect")]
        yield "transport-timeout-then-a-normal-call", {}, [dict(variables={"a": 1}, _fail="timeout"), dict(variables={"a": 2})]
        yield "call-headers-do-not-outlive-the-call", {}, [dict(variables={"a": 1}, headers={"Authorization": "Bearer once", "Content-Type": "application/graphql+json"}),
                                                           dict(variables={"a": 2})]
        yield "upload-whose-stream-was-read-before", {}, [dict(variables={"f": "UPLOAD-READ"})]
        yield "the-same-upload-in-two-successive-calls", {}, [dict(variables={"f": "UPLOAD-0"}), dict(variables={"f": "UPLOAD-0", "g": "UPLOAD-1"})]
        import pydantic
        aliased = type("In", (BM.BaseModel,), {"__annotations__": {"camel_case": int, "from_": typing.Optional[str], "items": typing.List[typing.Optional[float]]},
                                              "camel_case": pydantic.Field(alias="camelCase"), "from_": pydantic.Field(alias="from", default=None)})
        yield "input-models-with-renamed-fields-and-lists-with-null-items", {}, [dict(variables={"in": aliased(camelCase=1, items=[1.5, None, 2.5]),
                                                                                                   "l": [1.5, None, 2.5], "ll": [[None], [], None]})]
        yield "renamed-fields-and-null-items-next-to-an-upload", {}, [dict(variables={"in": aliased(camelCase=2, **{"from": "x"}, items=[None]), "l": [None, 1], "f": "UPLOAD-0"})]
        yield "values-for-pydantic's-encoder", {}, [dict(variables={"when": datetime.datetime(2020, 1, 2, 3, 4, 5), "span": datetime.timedelta(minutes=90),
                                                                    "amount": decimal.Decimal("1.50"), "ids": [uuid.UUID(int=7)], "raw": b"bytes"})]

    for sname, ctor_kw, calls in scenarios():
        cases += 1
        seen_by = {}
        for vname, cls, tracer in variants():
            U = _uploads()
            U[2].content.read()          # UPLOAD-READ: its stream is at the end

            def materialise(v):
                if isinstance(v, dict):
                    return {k: materialise(x) for k, x in v.items()}
                return {"UPLOAD-0": U[0], "UPLOAD-1": U[1], "UPLOAD-READ": U[2]}.get(v, v) if isinstance(v, str) else v
            seen = []

            fail = []

            def handler(request):
                request.read()
                seen.append(_canonical_request(request))
                if fail and fail[0] == "connect":
                    raise httpx.ConnectError("refused", request=request)
                if fail and fail[0] == "timeout":
                    raise httpx.ReadTimeout("slow", request=request)
                return httpx.Response(200, json={"data": {}})
            kw = dict(url="http://localhost/graphql", **ctor_kw)
            if tracer:
                kw["tracer"] = tracer
            try:
                if "Async" in vname:
                    client = cls(http_client=httpx.AsyncClient(transport=httpx.MockTransport(handler)), **kw)

                    async def run():
                        for c in calls:
                            c = dict(c)
                            fail[:] = [c.pop("_fail")] if "_fail" in c else []
                            try:
                                await client.execute(QUERY_TEXT, operation_name="Q", variables=materialise(c.pop("variables")), **c)
                            except httpx.TransportError as e:
                                seen.append(f"raises {type(e).__name__}")
                    asyncio.run(run())
                else:
                    client = cls(http_client=httpx.Client(transport=httpx.MockTransport(handler)), **kw)
                    for c in calls:
                        c = dict(c)
                        fail[:] = [c.pop("_fail")] if "_fail" in c else []
                        try:
                            client.execute(QUERY_TEXT, operation_name="Q", variables=materialise(c.pop("variables")), **c)
                        except httpx.TransportError as e:
                            seen.append(f"raises {type(e).__name__}")
                seen_by[vname] = seen
            except Exception as e:      # noqa
                seen_by[vname] = f"raises {type(e).__name__}: {str(e)[:160]}"
        first_name = next(iter(seen_by))
        # `caller-supplied headers merged and winning`: what the caller passed to the call is what arrives, under that name once
        if isinstance(seen_by[first_name], list) and len(seen_by[first_name]) == len(calls) and all(isinstance(x, dict) for x in seen_by[first_name]):
            for c, req in zip(calls, seen_by[first_name]):
                lost = {h: (v, req["headers"].get(h.lower())) for h, v in (c.get("headers") or {}).items() if req["headers"].get(h.lower()) != v}
                if lost:
                    fails.append(dict(inputs=dict(scenario=f"{sname}: caller-headers-win"), failed=["caller-supplied-headers-merged-and-winning"],
                                      outcome={h: f"passed {v!r}, arrived {a!r}" for h, (v, a) in lost.items()}))
        differing = sorted(v for v in seen_by if seen_by[v] != seen_by[first_name])
        if differing:
            fails.append(dict(inputs=dict(scenario=f"{sname}: {first_name} vs {','.join(differing)}"), failed=["the-four-clients-emit-identical-requests"],
                              outcome={first_name: str(seen_by[first_name])[:700], differing[0]: str(seen_by[differing[0]])[:700]}))
    return dict(function=f"{DEP}base_client:BaseClient.execute", name="bounded.clients-agree",
                kind="bounded stand-in (end-to-end through httpx.MockTransport, native)",
                domain="13 configurations (constructor / call headers, caller content type, extra httpx arguments, read and re-sent uploads, non-JSON leaves) "
                       "x 6 client variants, pairwise identical requests", cases=cases, failed=len(fails), failures=fails)


def witness_header_case():
    r = bounded_agreement("quick", 0)
    cases = [f["inputs"]["scenario"] for f in r["failures"] if f["inputs"]["scenario"].endswith("caller-headers-win")]
    return dict(inputs={"scenario": "caller-headers-win"}, failed=cases, cases=cases, outcome={}, error=None)


def bounded_constructors(tier, seed):
    """what the constructor of each bundled client stores is what it was given - nothing is derived from another option
    (HTTP headers are not websocket headers, a supplied http client is used as it is) - and the plain and the OpenTelemetry
    client of the same kind agree"""
    import httpx
    cases, fails = 0, []
    given_sets = []
    for headers in (None, {"Authorization": "Bearer h"}):
        for supply in (False, True):
            for ws in ({}, dict(ws_url="ws://x/graphql"), dict(ws_url="ws://x/graphql", ws_headers={"X-Ws": "1"}, ws_origin="https://o.example",
                                                              ws_connection_init_payload={"token": "t"}),
                       dict(ws_headers={}, ws_origin=None, ws_connection_init_payload={})):
                given_sets.append((headers, supply, ws))
    for headers, supply, ws in given_sets:
        described = {}
        for m, k in CLIENTS:
            cls = getattr(importlib.import_module(DEP + m), k)
            is_async = "Async" in k
            if not is_async and ws:
                continue
            cases += 1
            supplied = (httpx.AsyncClient() if is_async else httpx.Client()) if supply else None
            before = dict(supplied.headers) if supplied is not None else None
            kw = dict(url="http://x/graphql", headers=headers, http_client=supplied, **(ws if is_async else {}))
            bad = []
            try:
                c = cls(**kw)
                if c.url != "http://x/graphql" or c.headers != headers:
                    bad.append(f"url-and-headers-stored-as-given: {c.url!r} {c.headers!r}")
                if supply and (c.http_client is not supplied or dict(supplied.headers) != before):
                    bad.append("a-supplied-http-client-is-used-as-it-is")
                if not supply and {k2: v for k2, v in c.http_client.headers.items() if k2 in ("authorization",)} != {k2.lower(): v for k2, v in (headers or {}).items()}:
                    bad.append(f"the-client's-own-http-client-carries-the-configured-headers: {dict(c.http_client.headers)}")
                if is_async:
                    want = dict(ws_url=ws.get("ws_url", ""), ws_headers=ws.get("ws_headers") or {}, ws_origin=ws.get("ws_origin"),
                                ws_connection_init_payload=ws.get("ws_connection_init_payload"))
                    got = dict(ws_url=c.ws_url, ws_headers=c.ws_headers, ws_origin=(str(c.ws_origin) if c.ws_origin else None),
                               ws_connection_init_payload=c.ws_connection_init_payload)
                    if got != want:
                        bad.append(f"websocket-options-stored-as-given: {got} != {want}")
                described[k] = (c.url, c.headers, getattr(c, "ws_headers", None), str(getattr(c, "ws_origin", None)), getattr(c, "ws_connection_init_payload", None))
            except Exception as e:      # noqa
                bad.append(f"raises-{type(e).__name__}: {str(e)[:120]}")
            if bad:
                fails.append(dict(inputs=dict(scenario=f"{k}: headers={headers is not None} http_client={supply} ws={sorted(ws)}"), failed=bad, outcome=None))
        for a, b in (("BaseClient", "BaseClientOpenTelemetry"), ("AsyncBaseClient", "AsyncBaseClientOpenTelemetry")):
            if a in described and b in described and described[a] != described[b]:
                fails.append(dict(inputs=dict(scenario=f"{a} vs {b}: headers={headers is not None} http_client={supply} ws={sorted(ws)}"),
                                  failed=["plain-and-opentelemetry-client-store-the-same"], outcome={a: str(described[a]), b: str(described[b])}))
    return dict(function=f"{DEP}async_base_client:AsyncBaseClient.__init__", name="bounded.constructors",
                kind="bounded stand-in (native)", domain="4 clients x headers given/not x http client supplied/not x 4 websocket option sets",
                cases=cases, failed=len(fails), failures=fails)
