"""C11 - upload separation: the recursive closure `separate_files` of _get_files_from_variables (four copies, one per client).

statement: `with Upload objects anywhere in the variables ... every file position is null in operations, map lists exactly
those paths, and each distinct Upload is sent once`.  The closure walks a value, returns it with every Upload replaced by None
and records each Upload in `files_list` (once per distinct object) and its path in `files_map` under the index of its Upload.

Contract of one call  separate_files(path, obj)  on an arbitrary bookkeeping state (L = files_list, M = files_map):

  result     = nulled(obj)            the value with None at every file position, everything else unchanged (total: structural
                                      induction over obj; a recursive spec function)
  frame      no container of the caller's value is mutated (new lists / dicts are built)
  state      the one-step unfolding equations
               Upload u, u in L       L unchanged;  M[str(index of u in L)] gains `path` at its end
               Upload u, u not in L   L gains u at its end;  M[str(len(L))] = [path]
               list [x0, x1, ...]     state = the left fold over the items of  after(path + "." + str(i), x_i, state)
               dict {k0: x0, ...}     state = the left fold over the entries of  after(path + "." + k_i, x_i, state)
               anything else          unchanged
             where after(p, x, state) is the state a (recursive) call leaves - the folds are declared functions constrained by
             instances of their defining equations (as in c01_resolve)
  invariant  bookkeeping: M has an entry for str(0) .. str(len(L) - 1), L holds each Upload once  - assumed at entry, proved at exit
             (the Upload branch relies on it: M[str(index)] must exist)
No exception may escape."""
import importlib
import z3
from pyvc import val as V
from pyvc import models
from pyvc.val import SV, Obj, MList, MDict
from pyvc.contract import Contract
from pyvc.spec import *   # noqa
from . import lib_values as L

DEP = "ariadne_codegen.client_generators.dependencies."
CLIENTS = [("base_client", "BaseClient"), ("async_base_client", "AsyncBaseClient"),
           ("base_client_open_telemetry", "BaseClientOpenTelemetry"),
           ("async_base_client_open_telemetry", "AsyncBaseClientOpenTelemetry")]

# values a variables tree is made of once _process_variables has dumped the models: JSON leaves, Uploads, lists, dicts
_TREE_DICT = []


def _tree(self):
    d = DictOf(Str, self, name="tree_members")
    _TREE_DICT.append(d)
    return OneOf(NoneT, Bool, Int, Float, Str, L.UPLOAD_SHAPE, ListOf(self, name="tree_items"), d)


TREE = Rec("UploadTree", _tree)

nulled = z3.RecFunction("spec_nulled", V.Val, V.Val)
nulled_list = SpecMap("spec_nulled_list", lambda v: nulled(v))
nulled_dict = SpecMap("spec_nulled_dict", lambda p: V._pair(V.pkey(p), nulled(V.pval(p))))
_v = z3.Const("nv", V.Val)
z3.RecAddDefinition(nulled, [_v], z3.If(V.is_VList(_v), V.VList(nulled_list(V.vl(_v))),
                                        z3.If(V.is_VDict(_v), V.VDict(nulled_dict(V.vd(_v))), z3.If(L.is_upload(_v), V.VNone, _v))))

# the bookkeeping state a call leaves: (path, obj, L, M) -> L' / M'
AFTER_L = z3.Function("files_list_after", V.Val, V.Val, V.VL, V.Val, V.VL)
AFTER_M = z3.Function("files_map_after", V.Val, V.Val, V.VL, V.Val, V.Val)
# left folds of `after` over the items of a list (with their indices) / the entries of a dict
FOLD_LIST_L = z3.Function("fold_items_files_list", V.Val, z3.IntSort(), V.VL, V.VL, V.Val, V.VL)      # (path, index of the first item, items, L, M)
FOLD_LIST_M = z3.Function("fold_items_files_map", V.Val, z3.IntSort(), V.VL, V.VL, V.Val, V.Val)
FOLD_DICT_L = z3.Function("fold_entries_files_list", V.Val, V.VL, V.VL, V.Val, V.VL)                   # (path, entries, L, M)
FOLD_DICT_M = z3.Function("fold_entries_files_map", V.Val, V.VL, V.VL, V.Val, V.Val)
KEYS = z3.RecFunction("files_map_has_indices_below", V.Val, z3.IntSort(), z3.BoolSort())                # M has str(0) .. str(n-1)
_m, _n = z3.Const("km", V.Val), z3.Int("kn")
z3.RecAddDefinition(KEYS, [_m, _n], z3.If(_n <= 0, z3.BoolVal(True), z3.And(has(_m, V.VStr(z3.IntToStr(_n - 1))), KEYS(_m, _n - 1))))
NODUP = z3.RecFunction("each_upload_once", V.VL, z3.BoolSort())
_l = z3.Const("nl", V.VL)
z3.RecAddDefinition(NODUP, [_l], z3.If(V.is_VNil(_l), z3.BoolVal(True), z3.And(z3.Not(V.vl_contains(V.tl(_l), V.hd(_l))), NODUP(V.tl(_l)))))


DISJOINT = z3.RecFunction("no_key_of_the_rest_is_set_yet", V.VL, V.VL, z3.BoolSort())     # (entries written so far, entries to come)
_c, _r = z3.Const("dj_c", V.VL), z3.Const("dj_r", V.VL)
z3.RecAddDefinition(DISJOINT, [_c, _r], z3.If(V.is_VNil(_r), z3.BoolVal(True), z3.And(z3.Not(V.d_has(_c, V.pkey(V.hd(_r)))), DISJOINT(_c, V.tl(_r)))))


def item_path(path, i):
    return V.VStr(z3.Concat(V.vs(path), V.S("."), z3.IntToStr(i)))


def entry_path(path, key):
    return V.VStr(z3.Concat(V.vs(path), V.S("."), V.vs(key)))


def bookkeeping(Lt, Mt):
    return z3.And(KEYS(Mt, V.vl_len(Lt)), NODUP(Lt))


def _is_nil(t):
    t = z3.simplify(t)
    return z3.is_app(t) and t.decl().name() == "VNil"


def _cons(t):
    t = z3.simplify(t)
    return (t.arg(0), t.arg(1)) if z3.is_app(t) and t.decl().name() == "VCons" else None


def _state(env):
    fl, fm = env.lookup("files_list"), env.lookup("files_map")
    return V.vl(V.lower(fl)), V.lower(fm)


def _inv(rest, xs, st, I, env):
    """both loops of separate_files (the items of a list, the entries of a dict), suffix form"""
    path = V.lower(env.lookup("path"))
    Lc, Mc = _state(env)
    L0, M0 = I.ctx.__dict__["sf_L0"], I.ctx.__dict__["sf_M0"]
    if dict.__contains__(st, "nulled_list"):
        out = V.vl(st["nulled_list"])
        i = V.vl_len(xs) - V.vl_len(rest)
        c = _cons(rest)
        if c is not None:
            x, r1 = c
            p_i = item_path(path, i)
            La, Ma = AFTER_L(p_i, x, Lc, Mc), AFTER_M(p_i, x, Lc, Mc)
            for F in (FOLD_LIST_L, FOLD_LIST_M):        # defining equation at x :: rest'
                V.LEMMAS.append(F(path, i, z3.simplify(rest), Lc, Mc) == F(path, i + 1, r1, La, Ma))
        if _is_nil(rest):
            V.LEMMAS.append(FOLD_LIST_L(path, i, V.VNil, Lc, Mc) == Lc)                                 # defining equation at nil
            V.LEMMAS.append(FOLD_LIST_M(path, i, V.VNil, Lc, Mc) == Mc)
        return z3.And(V.vl_len(rest) <= V.vl_len(xs), append_map_inv(out, rest, xs, nulled_list),
                      FOLD_LIST_L(path, i, rest, Lc, Mc) == FOLD_LIST_L(path, z3.IntVal(0), xs, L0, M0),
                      FOLD_LIST_M(path, i, rest, Lc, Mc) == FOLD_LIST_M(path, z3.IntVal(0), xs, L0, M0),
                      bookkeeping(Lc, Mc))
    if dict.__contains__(st, "nulled_dict"):
        cur = V.vd(st["nulled_dict"])
        wf = _TREE_DICT[-1].all_fn()
        V.LEMMAS.append(DISJOINT(V.VNil, xs))                 # nothing is set before the first entry
        c = _cons(rest)
        if c is not None:
            x, r1 = c
            k, val = V.pkey(x), V.pval(x)
            e = V._pair(k, nulled(val))
            p_k = entry_path(path, k)
            La, Ma = AFTER_L(p_k, val, Lc, Mc), AFTER_M(p_k, val, Lc, Mc)
            rs = z3.simplify(rest)
            for F in (FOLD_DICT_L, FOLD_DICT_M):        # defining equation at x :: rest'
                V.LEMMAS.append(F(path, rs, Lc, Mc) == F(path, r1, La, Ma))
            grown = V.vl_concat(cur, V.VCons(e, V.VNil))
            V.LEMMAS.append(z3.Implies(z3.Not(V.d_has(cur, k)), V.d_set(cur, k, nulled(val)) == grown))          # setting a new key appends the entry
            V.LEMMAS.append(DISJOINT(cur, rs) == z3.And(z3.Not(V.d_has(cur, k)), DISJOINT(cur, r1)))              # definition at x :: rest'
            V.LEMMAS.append(z3.Implies(z3.And(DISJOINT(cur, r1), z3.Not(V.d_has(r1, k))), DISJOINT(grown, r1)))   # the new key is none of the rest
            V.LEMMAS.append(z3.Implies(wf(rs), z3.And(wf(r1), z3.Not(V.d_has(r1, k)))))                           # distinct keys: definition at x :: rest'
        if _is_nil(rest):
            V.LEMMAS.append(FOLD_DICT_L(path, V.VNil, Lc, Mc) == Lc)
            V.LEMMAS.append(FOLD_DICT_M(path, V.VNil, Lc, Mc) == Mc)
        return z3.And(wf(rest), DISJOINT(cur, rest), append_map_inv(cur, rest, xs, nulled_dict),
                      FOLD_DICT_L(path, rest, Lc, Mc) == FOLD_DICT_L(path, xs, L0, M0),
                      FOLD_DICT_M(path, rest, Lc, Mc) == FOLD_DICT_M(path, xs, L0, M0),
                      bookkeeping(Lc, Mc))
    from pyvc.interp import Unsupported
    raise Unsupported("a loop of separate_files the contract has no invariant for")


_inv.extra_mutated = [("files_list",), ("files_map",)]


class SeparateFiles(Contract):
    props = ("C11",)
    frame_args = True
    assume_proved = True
    trusted = L.TRUSTED + ["str(i) of a non-negative int = IntToStr(i) (SMT-LIB); f-strings concatenate", "Upload objects are compared by identity (the class defines no __eq__)",
                           "the folds over items / entries are declared functions constrained by instances of their defining equations; lemma instances: "
                           "an index below len(L) has its entry (from the bookkeeping invariant), entries survive updates of the map"]

    def __init__(self, module, klass):
        self.module, self.klass = module, klass
        self.mod = importlib.import_module(DEP + module)
        self.target = f"{DEP}{module}:{klass}._get_files_from_variables.<locals>.separate_files"
        self.label = self.target
        self.loops = {f"{klass}._get_files_from_variables.<locals>.separate_files": _inv}

    def closure_env(self, E):
        fl = E.mlist("files_list0", L.UPLOAD_SHAPE)
        fm = E.sym("files_map0", DictOf(Str, ListOf(Str, name="paths_of_one_file"), name="files_map_entries"))
        self._L0, self._M0 = V.vl(fl.t), fm.t
        E.ctx.sf_L0, E.ctx.sf_M0 = self._L0, self._M0
        E.assume(bookkeeping(self._L0, self._M0))
        return dict(files_list=fl, files_map=MDict(fm.t))

    def setup(self, E):
        path, obj = E.sym("path", Str), E.sym("obj", TREE)
        L0, M0 = self._L0, self._M0
        idx, n = V.vl_index(L0, obj.t), V.vl_len(L0)
        # lemma instances for the Upload branch (theorems of the definitions, by induction on L / on n)
        V.LEMMAS.append(z3.Implies(V.vl_contains(L0, obj.t), z3.And(idx >= 0, idx < n)))
        V.LEMMAS.append(z3.Implies(z3.And(KEYS(M0, n), idx >= 0, idx < n), has(M0, V.VStr(z3.IntToStr(idx)))))
        V.LEMMAS.append(n >= 0)
        return [path, obj], {}

    def decreases(self, A):
        return A.obj

    def result_term(self, A):
        return nulled(A.obj)

    def apply_at_call(self, I, fn, args, kwargs):
        """recursive call (induction hypothesis: the argument is a proper sub-term): the bookkeeping invariant must hold for the
        state it is called in; result = nulled(argument); the state it leaves is after(path, argument, state) and satisfies the invariant"""
        if getattr(I.p, "in_comprehension", False):
            from pyvc.interp import Unsupported
            raise Unsupported("a call that changes the bookkeeping state inside a comprehension (the comprehension rule covers pure element expressions)")
        names = self.call_names(fn, args, kwargs, I)
        path, obj = V.lower(names["path"]), V.lower(names["obj"])
        from pyvc.contract import Args
        if I.ctx.current_key == tuple(self.target.split(":")):       # a recursive call: the argument must be a proper sub-term
            self.check_decreases(I, Args(path=path, obj=obj))
        env = fn.env
        Lc, Mc = _state(env)
        I.p.oblige("pre@separate_files.bookkeeping-invariant", bookkeeping(Lc, Mc), "pre@call")
        La, Ma = AFTER_L(path, obj, Lc, Mc), AFTER_M(path, obj, Lc, Mc)
        fl, fm = env.lookup("files_list"), env.lookup("files_map")
        if isinstance(fl, list) and isinstance(fm, dict):
            # called from the enclosing method: its two local containers (still concrete) become symbolic; they are bound in the
            # scope that defines the closure and are not aliased anywhere else at this point
            e = env
            while e is not None and "files_list" not in e.vars:
                e = e.parent
            fl, fm = MList(V.lower(fl)), MDict(V.lower(fm))
            e.vars["files_list"], e.vars["files_map"] = fl, fm
        if not isinstance(fl, MList) or not isinstance(fm, MDict):
            from pyvc.interp import Unsupported
            raise Unsupported("files_list / files_map are not a list and a dict any more")
        fl.t, fm.t = V.VList(La), Ma
        I.p.assume(z3.And(V.is_VDict(Ma), bookkeeping(La, Ma)))
        models._used(f"contract:{self.target}")
        return SV(nulled(obj))

    def ensures(self, A, res):
        path, obj = A.path, A.obj
        L0, M0 = self._L0, self._M0
        Lf, Mf = _state(A["__path__"].closure_env)
        idx, n = V.vl_index(L0, obj), V.vl_len(L0)
        key_old, key_new = V.VStr(z3.IntToStr(idx)), V.VStr(z3.IntToStr(n))
        known = V.vl_contains(L0, obj)
        up_L = z3.If(known, L0, V.vl_concat(L0, V.VCons(obj, V.VNil)))
        up_M = z3.If(known, V.VDict(V.d_set(V.vd(M0), key_old, V.VList(V.vl_concat(V.vl(get(M0, key_old)), V.VCons(path, V.VNil))))),
                     V.VDict(V.d_set(V.vd(M0), key_new, V.VList(V.VCons(path, V.VNil)))))
        # lemma instances for the bookkeeping invariant in the Upload branch (each a theorem of the definitions, by induction)
        Mo = V.VDict(V.d_set(V.vd(M0), key_old, V.VList(V.vl_concat(V.vl(get(M0, key_old)), V.VCons(path, V.VNil)))))
        Mn = V.VDict(V.d_set(V.vd(M0), key_new, V.VList(V.VCons(path, V.VNil))))
        Ln = V.vl_concat(L0, V.VCons(obj, V.VNil))
        for Mx in (Mo, Mn):
            V.LEMMAS.append(z3.Implies(KEYS(M0, n), KEYS(Mx, n)))                                   # entries survive an update of the map
        V.LEMMAS.append(V.d_has(V.vd(Mn), key_new))                                                   # the key just set is there
        V.LEMMAS.append(KEYS(Mn, n + 1) == z3.And(has(Mn, key_new), KEYS(Mn, n)))                     # definition of the invariant at n + 1 (n >= 0)
        V.LEMMAS.append(V.vl_len(Ln) == n + 1)
        V.LEMMAS.append(z3.Implies(z3.And(NODUP(L0), z3.Not(V.vl_contains(L0, obj))), NODUP(Ln)))
        zero = z3.IntVal(0)
        exp_L = z3.If(V.is_VList(obj), FOLD_LIST_L(path, zero, V.vl(obj), L0, M0),
                      z3.If(V.is_VDict(obj), FOLD_DICT_L(path, V.vd(obj), L0, M0), z3.If(L.is_upload(obj), up_L, L0)))
        exp_M = z3.If(V.is_VList(obj), FOLD_LIST_M(path, zero, V.vl(obj), L0, M0),
                      z3.If(V.is_VDict(obj), FOLD_DICT_M(path, V.vd(obj), L0, M0), z3.If(L.is_upload(obj), up_M, M0)))
        return {"every-file-position-is-null/everything-else-unchanged": res == nulled(obj),
                "each-distinct-upload-listed-once-in-order-of-first-occurrence": Lf == exp_L,
                "map-gains-exactly-this-path-under-the-index-of-its-upload": Mf == exp_M,
                "bookkeeping-invariant-kept": bookkeeping(Lf, Mf)}


    def replay_custom(self, inputs):
        return replay_separation(self.module, self.klass)

    def samples(self, tier):
        return [dict(case="trees")]


def replay_separation(module, klass):
    """native cross-check through the enclosing method: a few variables trees against the oracle written from the statement
    (c11_multipart.check_separation) - and the caller's tree is the same afterwards (same containers, same contents)"""
    from . import c11_multipart as M
    cls = getattr(importlib.import_module(DEP + module), klass)
    inst = cls(url="http://localhost/graphql")
    U = M._uploads()
    trees = [{}, {"a": 1, "b": None}, {"file": U[0]}, {"files": [U[0], U[1], U[0]], "n": [1, [2, U[2]]]},
             {"in": {"f": U[1], "g": [U[0], None, {"deep": [U[1], {"x": U[2]}]}]}, "again": U[1], "s": "text"}, {"l": [[], {}, [[U[2]]]]}]
    rep = dict(inputs={"client": klass, "trees": len(trees)}, failed=[], undetermined=[], pre_ok=True, outcome={}, error=None)

    def snapshot(v):
        if isinstance(v, list):
            return ("list", id(v), [snapshot(x) for x in v])
        if isinstance(v, dict):
            return ("dict", id(v), [(k, snapshot(x)) for k, x in v.items()])
        return ("leaf", id(v) if isinstance(v, M.BM.Upload) else repr(v))
    for i, tree in enumerate(trees):
        before = snapshot(tree)
        try:
            res = inst._get_files_from_variables(tree)
        except Exception as e:   # noqa
            rep["failed"].append("no exception may escape")
            rep["outcome"][i] = repr(e)
            continue
        bad = M.check_separation(tree, res)
        if snapshot(tree) != before:
            bad.append("frame.arguments-not-mutated")
        if bad:
            rep["outcome"][i] = dict(variables=M._show(tree), result=M._show(res), failed=bad)
            rep["failed"] += ["post." + b if not b.startswith("frame") else b for b in bad]
    close = getattr(inst.http_client, "close", None)
    if close and not hasattr(inst.http_client, "aclose"):
        close()
    rep["failed"] = sorted(set(rep["failed"]))
    return rep


# (The enclosing method - empty bookkeeping state, path "variables", the form parts built from files_list by a dict comprehension
#  over enumerate() with computed keys - is outside the engine's comprehension rule; it is covered by the exhaustive bounded stand-in
#  c11_multipart.bounded_separation and by the wire stand-in.)
CONTRACTS = [SeparateFiles(m, k) for m, k in CLIENTS]
