"""C08 - fragments and mixins are honoured as reusable base types.

@mixin handling under contract (argument parsing: ParsingError iff malformed; one import and one extra base per
directive, in order); fragment class ordering by an exhaustive bounded stand-in on the real function; an end-to-end
scenario grid as replay vehicle."""
import ast
import itertools
import z3
import graphql as G
from pyvc import val as V
from pyvc.val import SV, Obj, MList
from pyvc.contract import Contract, self_obj
from pyvc.spec import *   # noqa
from . import lib_graphql as GQ
from ariadne_codegen.client_generators import result_types as RT
from ariadne_codegen.client_generators import fragments as FR
from ariadne_codegen import exceptions as EX
from ariadne_codegen.client_generators import constants as K

V.REG.register(EX.ParsingError, ["args"])
V.REG.register(G.ArgumentNode, ["name", "value"], build=lambda name=None, value=None: G.ArgumentNode(name=name or G.NameNode(value="a"), value=value or G.StringValueNode(value="v")))
V.REG.register(RT.ResultTypesGenerator, ["_imports"])
ARG_VALUE = OneOf(Cls(G.StringValueNode, value=Str), Cls(G.IntValueNode, value=Str), Cls(G.BooleanValueNode, value=Bool),
                  Cls(G.EnumValueNode, value=GQ.NAME), Cls(G.NullValueNode))
ARGUMENT = Cls(G.ArgumentNode, name=GQ.NAME_NODE, value=ARG_VALUE)
ARGS = TupleOf(ARGUMENT, name="all_arguments")
MIXIN_DIRECTIVE = Cls(G.DirectiveNode, name=GQ.NAME_NODE, arguments=ARGS)


def arg_name(a):
    return V.attr_of(V.attr_of(a, G.ArgumentNode, "name"), G.NameNode, "value")


def arg_value(a):
    return V.attr_of(a, G.ArgumentNode, "value")


def is_string_arg(a):
    return GQ.is_cls(arg_value(a), GQ.LIT_CLASSES[G.StringValueNode])


# fold of the arguments into the dict: fold(nil, d) = d ; fold(a::r, d) = fold(r, d[name(a)] := text(a))
fold_args = z3.RecFunction("mixin_args_fold", V.VL, V.VL, V.VL)
all_strings = z3.RecFunction("mixin_args_all_strings", V.VL, z3.BoolSort())
_l, _d = z3.Const("al", V.VL), z3.Const("ad", V.VL)
z3.RecAddDefinition(fold_args, [_l, _d], z3.If(V.is_VNil(_l), _d, fold_args(V.tl(_l), V.d_set(_d, arg_name(V.hd(_l)), V.nth(V.fs_of(arg_value(V.hd(_l))), 0)))))
z3.RecAddDefinition(all_strings, [_l], z3.If(V.is_VNil(_l), z3.BoolVal(True), z3.And(is_string_arg(V.hd(_l)), all_strings(V.tl(_l)))))


class ParseMixinArguments(Contract):
    props = ("C08", "C04")
    target = "ariadne_codegen.client_generators.result_types:ResultTypesGenerator._parse_mixin_arguments"
    frame_args = False

    def setup(self, E):
        return [self_obj(RT.ResultTypesGenerator, {}), E.sym("directive", MIXIN_DIRECTIVE)], {}

    def _xs(self, A):
        return V.vt(V.attr_of(A.directive, G.DirectiveNode, "arguments"))

    @property
    def loops(self):
        def inv(rest, xs, st, I, env):
            cur = V.vd(st["arguments"]) if "arguments" in st else V.VNil
            # all processed arguments were strings (otherwise the loop has raised) and the dict is the fold so far
            return z3.And(fold_args(rest, cur) == fold_args(xs, V.VNil), all_strings(rest) == all_strings(xs))
        return {"ResultTypesGenerator._parse_mixin_arguments": inv}

    def _result(self, A):
        return fold_args(self._xs(A), V.VNil)

    def ensures(self, A, res):
        d = self._result(A)
        return {"returns-only-for-wellformed-mixin": z3.And(all_strings(self._xs(A)), V.dhas(d, S(K.MIXIN_FROM_NAME)), V.dhas(d, S(K.MIXIN_IMPORT_NAME))),
                "arguments-by-name": res == V.VDict(d)}

    def on_raise(self, A, exc_cls, exc):
        d = self._result(A)
        if exc_cls is EX.ParsingError:
            return {"parsing-error-only-for-malformed-mixin": z3.Or(z3.Not(all_strings(self._xs(A))),
                                                                   z3.Not(V.dhas(d, S(K.MIXIN_FROM_NAME))), z3.Not(V.dhas(d, S(K.MIXIN_IMPORT_NAME))))}
        return {"documented-refusal-only": z3.BoolVal(False)}

    def native_args(self, inputs):
        return [inputs["directive"]], {}

    def native_self(self):
        return RT.ResultTypesGenerator.__new__(RT.ResultTypesGenerator)

    def samples(self, tier):
        def d(src):
            return G.parse("{ f @mixin%s }" % src).definitions[0].selection_set.selections[0].directives[0]
        return [dict(directive=d(x)) for x in ('(from: "a.b", import: "C")', '(import: "C")', '(from: "a")', '(from: 1, import: "C")', '',
                                                '(from: "a", import: "C", extra: "x")', '(from: "a", from: "b", import: "C")')]


CONTRACTS = [ParseMixinArguments()]


# ------------------------------------------------------------------------------------------ bounded: class ordering
def bounded_fragment_order(tier, seed):
    """every DAG on <= 4 (thorough: 5) fragment names, every assignment of names (alphabetical order vs. dependency
    order): the real _get_sorted_fragments_names returns a permutation in which every dependency precedes its dependant"""
    n = 4 if tier == "quick" else 5
    gen = FR.FragmentsGenerator.__new__(FR.FragmentsGenerator)
    base = ["Fa", "Fb", "Fc", "Fd", "Fe"][:n]
    pairs = [(i, j) for i in range(n) for j in range(i + 1, n)]
    cases, fails = 0, []
    perms = list(itertools.permutations(range(n)))
    if n == 5:
        perms = perms[::7]
    for mask in range(1 << len(pairs)):
        edges = [pairs[k] for k in range(len(pairs)) if mask >> k & 1]     # i depends on j (i<j): acyclic by construction
        for perm in perms:
            names = [base[perm[i]] for i in range(n)]
            deps = {names[i]: {names[j] for (a, j) in edges if a == i} for i in range(n)}
            cases += 1
            try:
                out = gen._get_sorted_fragments_names(fragments_names=set(names), dependencies_dict=deps)
                ok = sorted(out) == sorted(names) and all(out.index(d) < out.index(k) for k, ds in deps.items() for d in ds)
            except Exception as e:   # noqa
                out, ok = repr(e), False
            if not ok:
                fails.append(dict(inputs=dict(dependencies_dict={k: sorted(v) for k, v in deps.items()}), outcome=out,
                                  failed=["dependencies-defined-before-dependants"]))
                if len(fails) > 5:
                    break
        if len(fails) > 5:
            break
    return dict(function="ariadne_codegen.client_generators.fragments:FragmentsGenerator._get_sorted_fragments_names",
                name="bounded.fragment-order", kind="bounded stand-in (exhaustive, native)",
                domain=f"all DAGs on {n} fragments x {'all' if n == 4 else 'every 7th of the'} name assignments", cases=cases, failed=len(fails), failures=fails)
