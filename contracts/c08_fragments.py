"""C08 - fragments and mixins are honoured as reusable base types.

@mixin handling under contract (argument parsing: ParsingError iff malformed; one import and one extra base per
directive, in order); fragment class ordering by an exhaustive bounded stand-in on the real function; an end-to-end
scenario grid as replay vehicle."""
import ast
import itertools
import z3
import graphql as G
from pyvc import val as V
from pyvc.val import SV, Obj, MList
from pyvc.contract import Contract, self_obj
from pyvc.spec import *   # noqa
from . import lib_graphql as GQ
from ariadne_codegen.client_generators import result_types as RT
from ariadne_codegen.client_generators import fragments as FR
from ariadne_codegen import exceptions as EX
from ariadne_codegen.client_generators import constants as K

V.REG.register(EX.ParsingError, ["args"])
V.REG.register(G.ArgumentNode, ["name", "value"], build=lambda name=None, value=None: G.ArgumentNode(name=name or G.NameNode(value="a"), value=value or G.StringValueNode(value="v")))
from . import lib_generator as _lg      # noqa: E402,F401  (registers ResultTypesGenerator)
ARG_VALUE = OneOf(Cls(G.StringValueNode, value=Str), Cls(G.IntValueNode, value=Str), Cls(G.BooleanValueNode, value=Bool),
                  Cls(G.EnumValueNode, value=GQ.NAME), Cls(G.NullValueNode))
ARGUMENT = Cls(G.ArgumentNode, name=GQ.NAME_NODE, value=ARG_VALUE)
ARGS = TupleOf(ARGUMENT, name="all_arguments")
MIXIN_DIRECTIVE = Cls(G.DirectiveNode, name=GQ.NAME_NODE, arguments=ARGS)


def arg_name(a):
    return V.attr_of(V.attr_of(a, G.ArgumentNode, "name"), G.NameNode, "value")


def arg_value(a):
    return V.attr_of(a, G.ArgumentNode, "value")


def is_string_arg(a):
    return GQ.is_cls(arg_value(a), GQ.LIT_CLASSES[G.StringValueNode])


# fold of the arguments into the dict: fold(nil, d) = d ; fold(a::r, d) = fold(r, d[name(a)] := text(a))
fold_args = z3.RecFunction("mixin_args_fold", V.VL, V.VL, V.VL)
all_strings = z3.RecFunction("mixin_args_all_strings", V.VL, z3.BoolSort())
_l, _d = z3.Const("al", V.VL), z3.Const("ad", V.VL)
z3.RecAddDefinition(fold_args, [_l, _d], z3.If(V.is_VNil(_l), _d, fold_args(V.tl(_l), V.d_set(_d, arg_name(V.hd(_l)), V.nth(V.fs_of(arg_value(V.hd(_l))), 0)))))
z3.RecAddDefinition(all_strings, [_l], z3.If(V.is_VNil(_l), z3.BoolVal(True), z3.And(is_string_arg(V.hd(_l)), all_strings(V.tl(_l)))))


class ParseMixinArguments(Contract):
    props = ("C08", "C04")
    target = "ariadne_codegen.client_generators.result_types:ResultTypesGenerator._parse_mixin_arguments"
    frame_args = False

    def setup(self, E):
        return [self_obj(RT.ResultTypesGenerator, {}), E.sym("directive", MIXIN_DIRECTIVE)], {}

    def _xs(self, A):
        return V.vt(V.attr_of(A.directive, G.DirectiveNode, "arguments"))

    @property
    def loops(self):
        def inv(rest, xs, st, I, env):
            cur = V.vd(st["arguments"]) if "arguments" in st else V.VNil
            # all processed arguments were strings (otherwise the loop has raised) and the dict is the fold so far
            return z3.And(fold_args(rest, cur) == fold_args(xs, V.VNil), all_strings(rest) == all_strings(xs))
        return {"ResultTypesGenerator._parse_mixin_arguments": inv}

    def _result(self, A):
        return fold_args(self._xs(A), V.VNil)

    def ensures(self, A, res):
        d = self._result(A)
        return {"returns-only-for-wellformed-mixin": z3.And(all_strings(self._xs(A)), V.dhas(d, S(K.MIXIN_FROM_NAME)), V.dhas(d, S(K.MIXIN_IMPORT_NAME))),
                "arguments-by-name": res == V.VDict(d)}

    def on_raise(self, A, exc_cls, exc):
        d = self._result(A)
        if exc_cls is EX.ParsingError:
            return {"parsing-error-only-for-malformed-mixin": z3.Or(z3.Not(all_strings(self._xs(A))),
                                                                   z3.Not(V.dhas(d, S(K.MIXIN_FROM_NAME))), z3.Not(V.dhas(d, S(K.MIXIN_IMPORT_NAME))))}
        return {"documented-refusal-only": z3.BoolVal(False)}

    def native_args(self, inputs):
        return [inputs["directive"]], {}

    def native_self(self):
        return RT.ResultTypesGenerator.__new__(RT.ResultTypesGenerator)

    def samples(self, tier):
        def d(src):
            return G.parse("{ f @mixin%s }" % src).definitions[0].selection_set.selections[0].directives[0]
        return [dict(directive=d(x)) for x in ('(from: "a.b", import: "C")', '(import: "C")', '(from: "a")', '(from: 1, import: "C")', '',
                                                '(from: "a", import: "C", extra: "x")', '(from: "a", from: "b", import: "C")')]


CONTRACTS = [ParseMixinArguments()]


# ------------------------------------------------------------------------------------------ mixin-vs-unpack decision
from .c09_pruning import FakeSchema                 # noqa: E402

from . import c03_arguments as _c03       # noqa: E402,F401  (registers the type nodes, with their builders)

for _c, _f in ((G.FragmentDefinitionNode, ["name", "type_condition", "selection_set", "directives"]), (G.SelectionSetNode, ["selections"]),
               (G.InlineFragmentNode, ["type_condition", "selection_set", "directives"]), (G.FragmentSpreadNode, ["name", "directives"]),
               (G.FieldNode, ["alias", "name", "arguments", "directives", "selection_set"])):
    try:
        V.REG.register(_c, _f)
    except ValueError:       # registered by another contract module with its own field list (a superset is fine for the shapes below)
        pass
NAMED_TYPE_NODE = Cls(G.NamedTypeNode, name=GQ.NAME_NODE)
SELECTION = OneOf(Cls(G.FieldNode, name=GQ.NAME_NODE), Cls(G.FragmentSpreadNode, name=GQ.NAME_NODE), Cls(G.InlineFragmentNode))
FRAGMENT_DEF = Cls(G.FragmentDefinitionNode, name=Opt(GQ.NAME_NODE), type_condition=NAMED_TYPE_NODE,
                   selection_set=Cls(G.SelectionSetNode, selections=TupleOf(SELECTION, name="fragment_selections")))
SCHEMA_TYPE = OneOf(Cls(G.GraphQLObjectType, name=GQ.NAME), Cls(G.GraphQLInterfaceType, name=GQ.NAME), Cls(G.GraphQLUnionType, name=GQ.NAME))
is_inline = SpecMap("selection_is_inline_fragment", lambda sel: V.VBool(GQ.is_cls(sel, V.REG.info(G.InlineFragmentNode))))


class UnpackFragment(Contract):
    """statement: `a named fragment is a base class unless ...`: the decision whether a fragment is unpacked (its fields copied)
    instead of becoming a base class: exactly when it is declared on a union, or spread at a position of another type than
    its type condition, or has an inline fragment at its top level"""
    props = ("C08",)
    target = "ariadne_codegen.client_generators.result_types:ResultTypesGenerator._unpack_fragment"
    use_at_calls = False
    frame_args = False

    def setup(self, E):
        tm = E.sym("type_map", DictOf(GQ.NAME, SCHEMA_TYPE, name="type_map_08"))
        self_ = self_obj(RT.ResultTypesGenerator, {"schema": Obj(FakeSchema, {"type_map": tm})})
        return [self_, E.sym("fragment_def", FRAGMENT_DEF), E.sym("root_type_def", Opt(SCHEMA_TYPE))], {}

    @property
    def loops(self):
        def inv(rest, xs, st, I, env):
            # nothing is modified; every selection passed so far is not an inline fragment
            return is_inline.any_fn()(rest) == is_inline.any_fn()(xs)
        return {"ResultTypesGenerator._unpack_fragment": inv}

    def ensures(self, A, res):
        fd = A.fragment_def
        tc = V.attr_of(V.attr_of(V.attr_of(fd, G.FragmentDefinitionNode, "type_condition"), G.NamedTypeNode, "name"), G.NameNode, "value")
        tm = A["type_map"] if "type_map" in A else z3.Const("type_map", V.Val)
        named = z3.Not(V.is_VNone(V.attr_of(fd, G.FragmentDefinitionNode, "name")))
        on_union = z3.And(named, has(tm, tc), GQ.is_cls(get(tm, tc), V.REG.info(G.GraphQLUnionType)))
        root = A.root_type_def
        other_type = z3.And(z3.Not(V.is_VNone(root)), tc != GQ.name_of(root))
        sels = V.vt(V.attr_of(V.attr_of(fd, G.FragmentDefinitionNode, "selection_set"), G.SelectionSetNode, "selections"))
        has_inline = is_inline.any_fn()(sels)
        return {"unpacked-iff-on-a-union/spread-at-another-type/has-a-top-level-inline-fragment":
                    V.vb(res) == z3.Or(on_union, other_type, has_inline)}

    def replay_custom(self, inputs):
        return dict(inputs={k: str(v)[:200] for k, v in inputs.items()}, failed=[], pre_ok=True, outcome=None, error=None,
                    undetermined=["replayed end to end by contracts.e2e_fragments"])


CONTRACTS.append(UnpackFragment())


# ------------------------------------------------------------------------------------------ bounded: class ordering
def bounded_fragment_order(tier, seed):
    """every DAG on <= 4 (thorough: 5) fragment names, every assignment of names (alphabetical order vs. dependency
    order): the real _get_sorted_fragments_names returns a permutation in which every dependency precedes its dependant"""
    n = 4 if tier == "quick" else 5
    gen = FR.FragmentsGenerator.__new__(FR.FragmentsGenerator)
    base = ["Fa", "Fb", "Fc", "Fd", "Fe"][:n]
    pairs = [(i, j) for i in range(n) for j in range(i + 1, n)]
    cases, fails = 0, []
    perms = list(itertools.permutations(range(n)))
    if n == 5:
        perms = perms[::7]
    for mask in range(1 << len(pairs)):
        edges = [pairs[k] for k in range(len(pairs)) if mask >> k & 1]     # i depends on j (i<j): acyclic by construction
        for perm in perms:
            names = [base[perm[i]] for i in range(n)]
            deps = {names[i]: {names[j] for (a, j) in edges if a == i} for i in range(n)}
            cases += 1
            try:
                out = gen._get_sorted_fragments_names(fragments_names=set(names), dependencies_dict=deps)
                ok = sorted(out) == sorted(names) and all(out.index(d) < out.index(k) for k, ds in deps.items() for d in ds)
            except Exception as e:   # noqa
                out, ok = repr(e), False
            if not ok:
                fails.append(dict(inputs=dict(dependencies_dict={k: sorted(v) for k, v in deps.items()}), outcome=out,
                                  failed=["dependencies-defined-before-dependants"]))
                if len(fails) > 5:
                    break
        if len(fails) > 5:
            break
    return dict(function="ariadne_codegen.client_generators.fragments:FragmentsGenerator._get_sorted_fragments_names",
                name="bounded.fragment-order", kind="bounded stand-in (exhaustive, native)",
                domain=f"all DAGs on {n} fragments x {'all' if n == 4 else 'every 7th of the'} name assignments", cases=cases, failed=len(fails), failures=fails)
