"""C02 - the document sent is the document written (generator side).

Method-body templates of ClientGenerator: the text bound by `<query var> = gql(...)` is what `execute` / `execute_ws`
receive as `query`, the operation name is passed as `operation_name`, the variables dictionary as `variables`, and the
validated model is built from exactly the data that get_data returned - under every renaming of the method locals
(variable_names).  Also serves C12 and C13 (generated method returns the validated model of exactly that data).
Whole documents are checked by the end-to-end bounded stand-in e2e_documents."""
import ast
import z3
from pyvc import val as V
from pyvc import models
from pyvc.val import SV, Obj
from pyvc.contract import Contract, self_obj
from pyvc.spec import *   # noqa
from . import lib_graphql as GQ
from .c06_input_types import name_, const, call, K
from ariadne_codegen.client_generators import client as CL

MODC = "ariadne_codegen.client_generators.client:ClientGenerator."
LOCALS = dict(_operation_str_variable="query", _variables_dict_variable="variables", _response_variable="response",
              _data_variable="data", _gql_func_name="gql")
VARIABLE_NAMES = DictOf(Str, GQ.NAME, name="variable_names")


def gen_self():
    return self_obj(CL.ClientGenerator, dict(LOCALS))


def vn_input(E):
    vn = E.sym("variable_names", VARIABLE_NAMES)
    for k in ("query", "variables", "response", "data"):
        E.assume(has(vn.t, k))
    return vn


def kw(arg, value):
    return mk(ast.keyword, arg=arg, value=value)


def attr_(value, attr):
    return mk(ast.Attribute, value=value, attr=attr)


def request_keywords(vn, op):
    return lst(kw("query", name_(get(vn, "query"))), kw("operation_name", const(op)), kw("variables", name_(get(vn, "variables"))),
               kw(None, name_(K.KWARGS_NAMES)))


class Template(Contract):
    props = ("C02", "C12", "C13")
    method = None
    use_at_calls = False
    frame_args = False

    def __init__(self):
        self.target = MODC + self.method

    def replay_custom(self, inputs):
        from .e2e_documents import check_method_templates
        return check_method_templates()


class ExecuteCall(Template):
    method = "_generate_execute_call"

    def setup(self, E):
        return [gen_self(), vn_input(E), E.sym("operation_name", GQ.NAME)], {}

    def ensures(self, A, res):
        return {"query-text-variable/operation-name/variables-passed-to-execute":
                res == mk(ast.Call, func=attr_(name_("self"), "execute"), args=lst(), keywords=request_keywords(A.variable_names, A.operation_name))}


def validated(vn, return_type):
    return mk(ast.Call, func=attr_(name_(return_type), K.MODEL_VALIDATE_METHOD), args=lst(name_(get(vn, "data"))), keywords=lst())


class AsyncGeneratorLoop(Template):
    method = "_generate_async_generator_loop"

    def setup(self, E):
        return [gen_self(), vn_input(E), E.sym("operation_name", GQ.NAME), E.sym("return_type", GQ.NAME)], {}

    def ensures(self, A, res):
        vn = A.variable_names
        loop = mk(ast.AsyncFor, target=name_(get(vn, "data")),
                  iter=mk(ast.Call, func=attr_(name_("self"), "execute_ws"), args=lst(), keywords=request_keywords(vn, A.operation_name)),
                  body=lst(mk(ast.Expr, value=mk(ast.Yield, value=validated(vn, A.return_type)))), orelse=lst())
        return {"subscription-passes-the-bound-query-text-and-yields-the-validated-frame-data": res == loop}


class DataRetrieval(Template):
    method = "_generate_data_retrieval"

    def setup(self, E):
        return [gen_self(), vn_input(E)], {}

    def ensures(self, A, res):
        vn = A.variable_names
        return {"data-is-get_data-of-the-response": res == mk(ast.Assign, targets=lst(name_(get(vn, "data"))),
                                                              value=mk(ast.Call, func=attr_(name_("self"), "get_data"), args=lst(name_(get(vn, "response"))), keywords=lst()))}


class ReturnParsed(Template):
    method = "_generate_return_parsed_obj"

    def setup(self, E):
        return [gen_self(), vn_input(E), E.sym("return_type", GQ.NAME)], {}

    def ensures(self, A, res):
        return {"returns-the-validated-model-of-exactly-that-data": res == mk(ast.Return, value=validated(A.variable_names, A.return_type))}


class ResponseAssign(Template):
    method = "_generate_response_assign"

    def setup(self, E):
        return [gen_self(), vn_input(E), E.sym("operation_name", GQ.NAME)], {}

    def ensures(self, A, res):
        vn = A.variable_names
        return {"response-is-the-result-of-execute": res == mk(ast.Assign, targets=lst(name_(get(vn, "response"))),
                                                               value=mk(ast.Call, func=attr_(name_("self"), "execute"), args=lst(), keywords=request_keywords(vn, A.operation_name)))}


class AsyncResponseAssign(Template):
    method = "_generate_async_response_assign"

    def setup(self, E):
        return [gen_self(), vn_input(E), E.sym("operation_name", GQ.NAME)], {}

    def ensures(self, A, res):
        vn = A.variable_names
        return {"response-is-the-awaited-result-of-execute": res == mk(ast.Assign, targets=lst(name_(get(vn, "response"))),
                                                                       value=mk(ast.Await, value=mk(ast.Call, func=attr_(name_("self"), "execute"), args=lst(),
                                                                                                    keywords=request_keywords(vn, A.operation_name))))}


CONTRACTS = [ExecuteCall(), AsyncGeneratorLoop(), DataRetrieval(), ReturnParsed(), ResponseAssign(), AsyncResponseAssign()]


# ------------------------------------------------------------------------------------------ the operation string
# ResultTypesGenerator.get_operation_as_str: the authored operation (without @mixin) followed by every related fragment
# (without @mixin), each once, in sorted order; plugins see - and may replace - the COMPLETE string.
from ariadne_codegen.client_generators import result_types as RT          # noqa: E402
from pyvc.interp import ModelMethod                                         # noqa: E402

NOMIXIN = z3.Function("node_without_mixin_directive", V.Val, V.Val)
RELATED = z3.Const("all_related_fragments", V.Val)
HOOKED = z3.Function("plugins_generate_operation_str", z3.StringSort(), z3.StringSort())
joined_fragments = z3.RecFunction("printed_related_fragments", V.VL, V.Val, z3.StringSort())
_fl, _fd = z3.Const("frag_names", V.VL), z3.Const("frag_defs", V.Val)
z3.RecAddDefinition(joined_fragments, [_fl, _fd], z3.If(V.is_VNil(_fl), V.S(""), z3.Concat(
    V.S("\n\n"), GQ.PRINT_AST(NOMIXIN(get(_fd, V.hd(_fl)))), joined_fragments(V.tl(_fl), _fd))))


class _FakePluginManager:
    def _hook(I, o, a, k):
        I.p.effect("generate_operation_str", (a, dict(k)))
        return SV(V.VStr(HOOKED(V.vs(V.lower(a[0])))))
    __pyvc_methods__ = {"generate_operation_str": _hook}


V.REG.register(_FakePluginManager, [])


class GetOperationAsStr(Contract):
    props = ("C02", "C15")
    target = "ariadne_codegen.client_generators.result_types:ResultTypesGenerator.get_operation_as_str"
    use_at_calls = False
    frame_args = False
    trusted = ["graphql.print_ast: a function of the node", "sorted(): ascending permutation of its argument (py_sorted)",
               "_get_node_without_mixin_directive / _get_all_related_fragments: stand-ins here (visitor / set code outside the subset), covered by e2e_documents"]

    def setup(self, E):
        with_plugins = E.fork("plugin_manager")
        E.p.with_plugins = with_plugins
        defs = E.sym("fragments_definitions", DictOf(GQ.NAME, Any, name="fragment_definitions"))
        opdef = E.sym("operation_definition", Any)
        self_ = self_obj(RT.ResultTypesGenerator, dict(
            operation_definition=opdef, fragments_definitions=defs, plugin_manager=Obj(_FakePluginManager, {}) if with_plugins else None,
            _fragments_used_as_mixins=E.mset("fragments_used_as_mixins", GQ.NAME), _unpacked_fragments=E.mset("unpacked_fragments", GQ.NAME)))
        from pyvc.shapes import assume_shape
        assume_shape(E.p, ListOf(GQ.NAME, name="related_names"), RELATED)
        rel = V.vl(RELATED)
        # every related fragment has a definition (the fragments were collected from the definitions)
        self_.attrs["_get_node_without_mixin_directive"] = ModelMethod(self_, lambda I, o, a, k: SV(NOMIXIN(V.lower(a[0]))), "_get_node_without_mixin_directive")
        from pyvc.val import MSet
        self_.attrs["_get_all_related_fragments"] = ModelMethod(self_, lambda I, o, a, k: MSet(rel), "_get_all_related_fragments")
        # ghost facts about the elements of sorted(related): sorting keeps the elements (py_sorted is a permutation), and every
        # related fragment name has a definition (they were collected from the definitions)
        xs = z3.simplify(models.PY_SORTED(rel))
        table = E.ctx.__dict__.setdefault("elem_shapes", {})
        table[xs.get_id()] = lambda v, _d=defs.t: z3.And(GQ.NAME.pred(v), has(_d, v))
        E.ctx.__dict__.setdefault("keepalive", []).append(xs)
        E.assume(joined_fragments(V.VNil, defs.t) == V.S(""))       # unfolding of the definition at nil
        return [self_], {}

    @property
    def loops(self):
        defs = z3.Const("fragments_definitions", V.Val)

        def inv(rest, xs, st, I, env):
            cur = V.vs(st["operation_str"])
            op0 = GQ.PRINT_AST(NOMIXIN(z3.Const("operation_definition", V.Val)))
            rs = z3.simplify(rest)
            if z3.is_app(rs) and rs.decl().name() == "VCons":
                V.LEMMAS.append(joined_fragments(rs, defs) == z3.Concat(V.S("\n\n"), GQ.PRINT_AST(NOMIXIN(get(defs, rs.arg(0)))), joined_fragments(rs.arg(1), defs)))
            return z3.And(V.is_VStr(st["operation_str"]),
                          z3.Concat(cur, joined_fragments(rest, defs)) == z3.Concat(op0, joined_fragments(xs, defs)))
        return {"ResultTypesGenerator.get_operation_as_str": inv}

    def requires(self, A):
        return z3.BoolVal(True)

    def ensures(self, A, res):
        p = A["__path__"]
        defs = z3.Const("fragments_definitions", V.Val)
        op0 = GQ.PRINT_AST(NOMIXIN(z3.Const("operation_definition", V.Val)))
        any_frag = z3.Or(V.is_VCons(V.vl(z3.Const("fragments_used_as_mixins", V.Val))), V.is_VCons(V.vl(z3.Const("unpacked_fragments", V.Val))))
        full = z3.If(any_frag, z3.Concat(op0, joined_fragments(models.PY_SORTED(V.vl(RELATED)), defs)), op0)
        hooks = [x for k, x in A["__effects__"] if k == "generate_operation_str"]
        out = {}
        if getattr(p, "with_plugins", False):
            out["plugins-see-the-complete-document-once"] = z3.BoolVal(len(hooks) == 1)
            out["operation-then-every-related-fragment-in-sorted-order/then-the-plugin-hook"] = res == V.VStr(HOOKED(full))
        else:
            out["operation-then-every-related-fragment-in-sorted-order"] = res == V.VStr(full)
        return out

    def replay_custom(self, inputs):
        return dict(inputs={k: str(v)[:200] for k, v in inputs.items()}, failed=[], pre_ok=True, outcome=None, error=None,
                    undetermined=["replayed end to end by contracts.e2e_documents / e2e_plugins"])


CONTRACTS += [GetOperationAsStr()]
