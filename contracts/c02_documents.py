"""C02 - the document sent is the document written (generator side).

Method-body templates of ClientGenerator: the text bound by `<query var> = gql(...)` is what `execute` / `execute_ws`
receive as `query`, the operation name is passed as `operation_name`, the variables dictionary as `variables`, and the
validated model is built from exactly the data that get_data returned - under every renaming of the method locals
(variable_names).  Also serves C12 and C13 (generated method returns the validated model of exactly that data).
Whole documents are checked by the end-to-end bounded stand-in e2e_documents."""
import ast
import z3
from pyvc import val as V
from pyvc import models
from pyvc.val import SV, Obj
from pyvc.contract import Contract, self_obj
from pyvc.spec import *   # noqa
from . import lib_graphql as GQ
from .c06_input_types import name_, const, call, K
from ariadne_codegen.client_generators import client as CL

MODC = "ariadne_codegen.client_generators.client:ClientGenerator."
LOCALS = dict(_operation_str_variable="query", _variables_dict_variable="variables", _response_variable="response",
              _data_variable="data", _gql_func_name="gql")
VARIABLE_NAMES = DictOf(Str, GQ.NAME, name="variable_names")


def gen_self():
    return self_obj(CL.ClientGenerator, dict(LOCALS))


def vn_input(E):
    vn = E.sym("variable_names", VARIABLE_NAMES)
    for k in ("query", "variables", "response", "data"):
        E.assume(has(vn.t, k))
    return vn


def kw(arg, value):
    return mk(ast.keyword, arg=arg, value=value)


def attr_(value, attr):
    return mk(ast.Attribute, value=value, attr=attr)


def request_keywords(vn, op):
    return lst(kw("query", name_(get(vn, "query"))), kw("operation_name", const(op)), kw("variables", name_(get(vn, "variables"))),
               kw(None, name_(K.KWARGS_NAMES)))


class Template(Contract):
    props = ("C02", "C12", "C13")
    method = None
    use_at_calls = False
    frame_args = False

    def __init__(self):
        self.target = MODC + self.method

    def replay_custom(self, inputs):
        from .e2e_documents import check_method_templates
        return check_method_templates()


class ExecuteCall(Template):
    method = "_generate_execute_call"

    def setup(self, E):
        return [gen_self(), vn_input(E), E.sym("operation_name", GQ.NAME)], {}

    def ensures(self, A, res):
        return {"query-text-variable/operation-name/variables-passed-to-execute":
                res == mk(ast.Call, func=attr_(name_("self"), "execute"), args=lst(), keywords=request_keywords(A.variable_names, A.operation_name))}


def validated(vn, return_type):
    return mk(ast.Call, func=attr_(name_(return_type), K.MODEL_VALIDATE_METHOD), args=lst(name_(get(vn, "data"))), keywords=lst())


class AsyncGeneratorLoop(Template):
    method = "_generate_async_generator_loop"

    def setup(self, E):
        return [gen_self(), vn_input(E), E.sym("operation_name", GQ.NAME), E.sym("return_type", GQ.NAME)], {}

    def ensures(self, A, res):
        vn = A.variable_names
        loop = mk(ast.AsyncFor, target=name_(get(vn, "data")),
                  iter=mk(ast.Call, func=attr_(name_("self"), "execute_ws"), args=lst(), keywords=request_keywords(vn, A.operation_name)),
                  body=lst(mk(ast.Expr, value=mk(ast.Yield, value=validated(vn, A.return_type)))), orelse=lst())
        return {"subscription-passes-the-bound-query-text-and-yields-the-validated-frame-data": res == loop}


class DataRetrieval(Template):
    method = "_generate_data_retrieval"

    def setup(self, E):
        return [gen_self(), vn_input(E)], {}

    def ensures(self, A, res):
        vn = A.variable_names
        return {"data-is-get_data-of-the-response": res == mk(ast.Assign, targets=lst(name_(get(vn, "data"))),
                                                              value=mk(ast.Call, func=attr_(name_("self"), "get_data"), args=lst(name_(get(vn, "response"))), keywords=lst()))}


class ReturnParsed(Template):
    method = "_generate_return_parsed_obj"

    def setup(self, E):
        return [gen_self(), vn_input(E), E.sym("return_type", GQ.NAME)], {}

    def ensures(self, A, res):
        return {"returns-the-validated-model-of-exactly-that-data": res == mk(ast.Return, value=validated(A.variable_names, A.return_type))}


class ResponseAssign(Template):
    method = "_generate_response_assign"

    def setup(self, E):
        return [gen_self(), vn_input(E), E.sym("operation_name", GQ.NAME)], {}

    def ensures(self, A, res):
        vn = A.variable_names
        return {"response-is-the-result-of-execute": res == mk(ast.Assign, targets=lst(name_(get(vn, "response"))),
                                                               value=mk(ast.Call, func=attr_(name_("self"), "execute"), args=lst(), keywords=request_keywords(vn, A.operation_name)))}


class AsyncResponseAssign(Template):
    method = "_generate_async_response_assign"

    def setup(self, E):
        return [gen_self(), vn_input(E), E.sym("operation_name", GQ.NAME)], {}

    def ensures(self, A, res):
        vn = A.variable_names
        return {"response-is-the-awaited-result-of-execute": res == mk(ast.Assign, targets=lst(name_(get(vn, "response"))),
                                                                       value=mk(ast.Await, value=mk(ast.Call, func=attr_(name_("self"), "execute"), args=lst(),
                                                                                                    keywords=request_keywords(vn, A.operation_name))))}


CONTRACTS = [ExecuteCall(), AsyncGeneratorLoop(), DataRetrieval(), ReturnParsed(), ResponseAssign(), AsyncResponseAssign()]
