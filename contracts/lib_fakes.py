"""Spec-level stand-ins for dependency objects (assumed contracts): websocket connection, OpenTelemetry tracer/span.

  * websocket connection (websockets >= 14.2 ClientConnection): `send` appends a frame to the peer's inbox, `recv()`
    and iteration deliver the server's frames in order, iteration ends after close(); here every call is recorded
    in the ghost effect log of the path.
  * OpenTelemetry: tracer.start_as_current_span(...) is a context manager yielding a span; span methods have no
    effect on requests or results.
"""
from pyvc import val as V
from pyvc import models
from pyvc.val import Obj, SV
from pyvc.interp import PyRaise


class FakeSpan:
    __pyvc_methods__ = {
        "set_attribute": lambda I, o, a, k: None,
        "set_status": lambda I, o, a, k: None,
        "record_exception": lambda I, o, a, k: None,
        "end": lambda I, o, a, k: None,
    }


class FakeSpanCM:
    @staticmethod
    def __pyvc_enter__(I, cm):
        return Obj(FakeSpan, {})


class FakeTracer:
    __pyvc_methods__ = {
        "start_as_current_span": lambda I, o, a, k: Obj(FakeSpanCM, {}),
        "start_span": lambda I, o, a, k: Obj(FakeSpan, {}),
    }


class FakeContext:
    pass


for _c in (FakeSpan, FakeSpanCM, FakeTracer, FakeContext):
    V.REG.register(_c, [])


def register_otel_functions(module):
    """the module-level helpers imported from opentelemetry by the bundled clients"""
    for name in ("set_span_in_context",):
        fn = getattr(module, name, None)
        if fn is not None:
            models.NATIVE[fn] = lambda I, a, k: Obj(FakeContext, {})
    fn = getattr(module, "get_tracer", None)
    if fn is not None:
        models.NATIVE[fn] = lambda I, a, k: Obj(FakeTracer, {})


class FakeWS:
    """scripted connection: attrs `frames` (list of interpreter values still to deliver)"""

    def _send(I, o, a, k):
        I.p.effect("ws_send", a[0])

    def _close(I, o, a, k):
        I.p.effect("ws_close", None)
        o.attrs["closed"] = True

    def _recv(I, o, a, k):
        h = o.attrs.get("recv_model")
        if h is None:
            from pyvc.interp import Unsupported
            raise Unsupported("websocket.recv without a frame model")
        return h(I, o)

    __pyvc_methods__ = {"send": _send, "close": _close, "recv": _recv}


V.REG.register(FakeWS, [])


def effects_term(effects, kinds=("ws_send", "ws_close", "yield", "ws_connect")):
    """lower the ghost effect log of a path: list of (kind, payload) tuples"""
    items = []
    for kind, payload in effects:
        if kind in kinds:
            items.append(V.VTuple(V.vlist([V.VStr(V.S(kind)), V.lower(payload)])))
    return V.VList(V.vlist(items))


class NativeWS:
    """native recording connection for replays"""

    def __init__(self, frames=()):
        self.frames = list(frames)
        self.log = []
        self.closed = False

    async def send(self, data):
        self.log.append(("ws_send", data))

    async def close(self):
        self.log.append(("ws_close", None))
        self.closed = True

    async def recv(self):
        return self.frames.pop(0)

    def __aiter__(self):
        return self

    async def __anext__(self):
        if self.closed or not self.frames:
            raise StopAsyncIteration
        return self.frames.pop(0)

    async def __aenter__(self):
        return self

    async def __aexit__(self, *a):
        return None


def abstract_text(s):
    """native text -> the abstract text domain used by the contracts (JsonText(value) | NotJsonText)"""
    import json
    if isinstance(s, (bytes, bytearray)):
        try:
            s = s.decode()
        except UnicodeDecodeError:
            return Obj(models.NotJsonText, {})
    if not isinstance(s, str):
        return s
    try:
        return Obj(models.JsonText, {"value": json.loads(s)})
    except ValueError:
        return Obj(models.NotJsonText, {})
