"""Spec-level stand-ins for dependency objects (assumed contracts): websocket connection, OpenTelemetry tracer/span.

  * websocket connection (websockets >= 14.2 ClientConnection): `send` appends a frame to the peer's inbox, `recv()`
    and iteration deliver the server's frames in order, iteration ends after close(); here every call is recorded
    in the ghost effect log of the path.
  * OpenTelemetry: tracer.start_as_current_span(...) is a context manager yielding a span; span methods have no
    effect on requests or results.
"""
from pyvc import val as V
from pyvc import models
from pyvc.val import Obj, SV
from pyvc.interp import PyRaise


class FakeSpan:
    __pyvc_methods__ = {
        "set_attribute": lambda I, o, a, k: None,
        "set_status": lambda I, o, a, k: None,
        "record_exception": lambda I, o, a, k: None,
        "end": lambda I, o, a, k: None,
    }


class FakeSpanCM:
    @staticmethod
    def __pyvc_enter__(I, cm):
        return Obj(FakeSpan, {})


class FakeTracer:
    __pyvc_methods__ = {
        "start_as_current_span": lambda I, o, a, k: Obj(FakeSpanCM, {}),
        "start_span": lambda I, o, a, k: Obj(FakeSpan, {}),
    }


class FakeContext:
    pass


for _c in (FakeSpan, FakeSpanCM, FakeTracer, FakeContext):
    V.REG.register(_c, [])


def register_otel_functions(module):
    """the module-level helpers imported from opentelemetry by the bundled clients"""
    for name in ("set_span_in_context",):
        fn = getattr(module, name, None)
        if fn is not None:
            models.NATIVE[fn] = lambda I, a, k: Obj(FakeContext, {})
    fn = getattr(module, "get_tracer", None)
    if fn is not None:
        models.NATIVE[fn] = lambda I, a, k: Obj(FakeTracer, {})


class FakeWS:
    """scripted connection: attrs `frames` (list of interpreter values still to deliver)"""

    def _send(I, o, a, k):
        I.p.effect("ws_send", a[0])

    def _close(I, o, a, k):
        I.p.effect("ws_close", None)
        o.attrs["closed"] = True

    def _recv(I, o, a, k):
        h = o.attrs.get("recv_model")
        if h is None:
            from pyvc.interp import Unsupported
            raise Unsupported("websocket.recv without a frame model")
        return h(I, o)

    __pyvc_methods__ = {"send": _send, "close": _close, "recv": _recv}


V.REG.register(FakeWS, [])


def effects_term(effects, kinds=("ws_send", "ws_close", "yield", "ws_connect")):
    """lower the ghost effect log of a path: list of (kind, payload) tuples"""
    items = []
    for kind, payload in effects:
        if kind in kinds:
            items.append(V.VTuple(V.vlist([V.VStr(V.S(kind)), V.lower(payload)])))
    return V.VList(V.vlist(items))


class NativeWS:
    """native recording connection for replays"""

    def __init__(self, frames=()):
        self.frames = list(frames)
        self.log = []
        self.closed = False

    async def send(self, data):
        self.log.append(("ws_send", data))

    async def close(self):
        self.log.append(("ws_close", None))
        self.closed = True

    async def recv(self):
        return self.frames.pop(0)

    def __aiter__(self):
        return self

    async def __anext__(self):
        if self.closed or not self.frames:
            raise StopAsyncIteration
        return self.frames.pop(0)

    async def __aenter__(self):
        return self

    async def __aexit__(self, *a):
        return None


def abstract_text(s):
    """native text -> the abstract text domain used by the contracts (JsonText(value) | NotJsonText)"""
    import json
    if isinstance(s, (bytes, bytearray)):
        try:
            s = s.decode()
        except UnicodeDecodeError:
            return Obj(models.NotJsonText, {})
    if not isinstance(s, str):
        return s
    try:
        return Obj(models.JsonText, {"value": json.loads(s)})
    except ValueError:
        return Obj(models.NotJsonText, {})


# ---------------------------------------------------------------------------------------------------------------
# Loop rule for iteration over an event source whose observable behaviour is a *trace* (ghost effect log):
# `async for message in websocket`, `async for item in generator`.
#
# The iterable is an Obj whose class has __pyvc_for__ = traced_for and attrs
#     xs      : z3 VL term, the items the source will deliver
#     events  : python callable rest(VL) -> VL term: the events the statement prescribes for the remaining items
#     final   : optional python callable rest(VL) -> Val term: the prescribed terminal outcome for the remaining items
#               (VNone: normal end), `final_closed`: its value once the source was closed by the client
#     elem    : optional callable (I, x) assuming the shape facts of an arbitrary item
#     closed  : bool, set by the stand-in's close(): iteration ends after the current item
#     events_step / final_step : optional callables (x, rest') -> the definition bodies instantiated at x::rest'
#
# Invariant (suffix form, cut at the loop head), with L the events logged since the loop was entered:
#     L ++ (closed ? [] : events(rest)) == events(xs)      and      (closed ? final_closed : final(rest)) == final(xs)
# init: L = [], rest = xs, not closed (trivial); step: arbitrary item x, rest = x::rest', body run once, the events it
# logged appended to L, invariant for rest'; exit: rest = [] or closed, so L == events(xs) and final(xs) == end value.
# An exception escaping the body leaves the log as [.. L, events of this iteration]; the contract's on_raise clauses are
# evaluated under the invariant assumed for x::rest'.  The two list lemmas used (valid by induction on L):
#     L ++ [] == L           (L ++ [e]) ++ Z == L ++ (e :: Z)
def traced_for(I, st, it, env, module):
    import z3
    from pyvc.interp import PathAbort, Unsupported, _Break, _Continue
    p = I.p
    o = it
    xs = o.attrs["xs"]
    ev = o.attrs["events"]
    fin = o.attrs.get("final")
    fin_closed = o.attrs.get("final_closed", V.VNone)
    if o.attrs.get("closed", False) is not False:
        raise Unsupported("iteration over an event source that is already closed")
    fnq = env.lookup("__fn__").qualname if env.has("__fn__") else "?"
    label = f"inv@{fnq.split('.')[-1]}:{st.lineno}"
    s_all = ev(xs)
    start = len(p.effects)
    # init: [] ++ events(xs) == events(xs) holds by definition of ++; recorded so that the obligation is counted
    p.oblige(f"{label}.init", V.vl_concat(V.VNil, s_all) == s_all, "inv-init")
    p.counter += 1
    which = z3.Bool(f"loop!{p.counter}!iteration")
    L = p.fresh("log", V.VL)
    V.LEMMAS.append(V.vl_concat(L, V.VNil) == L)
    # program state the body may change is arbitrary at the head of an arbitrary iteration and after the loop (no
    # invariant is offered for it: the trace invariant must hold whatever it is)
    mod = sorted(models._mutated_paths(st.body) - {(n,) for n in models._target_names(st.target)})
    if p.branch(which, f"loop@{st.lineno}:arbitrary-iteration"):
        for pth in mod:
            models._havoc(I, env, pth, "loopvar")
        x = p.fresh("item")
        rest1 = p.fresh("rest", V.VL)
        if o.attrs.get("elem"):
            o.attrs["elem"](I, x)
        p.assume(V.vcontains(xs, x))
        rest = V.VCons(x, rest1)
        del p.effects[start:]
        p.effects.append(("__prefix__", L))
        p.assume(V.vl_concat(L, ev(rest)) == s_all)
        if fin is not None:
            p.assume(fin(rest) == fin(xs))
        # one explicit unfolding of the recursive spec functions at x::rest' (an instance of their definitions; z3 does
        # not always unfold far enough by itself and then answers with a model that falsifies the assumption)
        if o.attrs.get("events_step"):
            p.assume(ev(rest) == o.attrs["events_step"](x, rest1))
        if fin is not None and o.attrs.get("final_step"):
            p.assume(fin(rest) == o.attrs["final_step"](x, rest1))
        I.assign_target(st.target, SV(x), env, module)
        try:
            I.exec_block(st.body, env, module)
        except _Continue:
            pass
        except _Break:
            raise Unsupported("break inside a traced loop")
        closed = o.attrs.get("closed", False)
        if not isinstance(closed, bool):
            raise Unsupported("symbolic closed flag")
        tail = V.VNil if closed else ev(rest1)
        events = [event_term(k, v) for k, v in p.effects[start + 1:] if k in TRACE_KINDS]
        cur = L
        for i, e in enumerate(events):
            z = tail
            for e2 in reversed(events[i + 1:]):
                z = V.VCons(e2, z)
            nxt = V.vl_concat(cur, V.VCons(e, V.VNil))
            V.LEMMAS.append(V.vl_concat(nxt, z) == V.vl_concat(cur, V.VCons(e, z)))
            cur = nxt
        p.oblige(f"{label}.step", V.vl_concat(cur, tail) == s_all, "inv-step")
        if fin is not None:
            p.oblige(f"{label}.step-final", (fin_closed if closed else fin(rest1)) == fin(xs), "inv-step")
        raise PathAbort()
    for pth in mod:
        models._havoc(I, env, pth, "loopout")
    del p.effects[start:]
    p.effects.append(("__prefix__", L))
    p.assume(L == s_all)
    if fin is not None:
        p.assume(z3.Or(fin(V.VNil) == fin(xs), fin_closed == fin(xs)))
    o.attrs["closed"] = True
    I.exec_block(st.orelse, env, module)
    return True


TRACE_KINDS = ("ws_send", "ws_close", "yield")


def event_term(kind, payload):
    return V.VTuple(V.vlist([V.VStr(V.S(kind)), V.lower(payload)]))


def trace_term(effects, kinds=TRACE_KINDS):
    """the ghost effect log of a path as a VL term; a ("__prefix__", L) entry stands for the events of the loop
    iterations before the current one"""
    cur = None          # VL term built so far (left to right)
    items = []
    for kind, payload in effects:
        if kind == "__prefix__":
            base = payload
            for e in reversed(items):
                base = V.VCons(e, base)
            if cur is not None:
                raise ValueError("two loop prefixes in one log")
            cur = ("open", items, payload)
            items = []
        elif kind in kinds:
            items.append(event_term(kind, payload))
    if cur is None:
        return V.vlist(items)
    _, head, L = cur
    t = L
    for e in items:
        t = V.vl_concat(t, V.VCons(e, V.VNil))
    for e in reversed(head):
        t = V.VCons(e, t)
    return t


class TracedSource:
    """generic event source (e.g. the async generator returned by a callee stand-in)"""
    __pyvc_for__ = staticmethod(traced_for)


V.REG.register(TracedSource, [])
FakeWS.__pyvc_for__ = staticmethod(traced_for)


class FakeWSConnect:
    """`ws_connect(url, **kwargs)` stand-in: entering the context yields the scripted connection"""

    @staticmethod
    def __pyvc_enter__(I, cm):
        return cm.attrs["ws"]


V.REG.register(FakeWSConnect, [])


def install_ws_connect(module, ws_of):
    """model of the module-level `ws_connect` / `Subprotocol` / `uuid4` names of a bundled async client.
    ws_of(I) -> the FakeWS of the current path"""
    import z3
    from pyvc.val import MDict

    def connect(I, a, k):
        kw = dict(k)
        splat = kw.pop("__splat__", None)
        if len(a) != 1:
            from pyvc.interp import Unsupported
            raise Unsupported("ws_connect positional arguments")
        m = MDict(V.lower(splat)) if splat is not None else MDict(V.lower({}))
        for key, v in kw.items():
            m.t = V.VDict(V.d_set(V.vd(m.t), V.lower(key), V.lower(v)))
        m.t = V.VDict(V.d_set(V.vd(m.t), V.lower("__url__"), V.lower(a[0])))
        I.p.effect("ws_connect", m.t)
        return Obj(FakeWSConnect, {"ws": ws_of(I)})
    models.NATIVE[module.ws_connect] = connect
    models.NATIVE[module.uuid4] = lambda I, a, k: SV(V.VStr(z3.String("operation_uuid")))
