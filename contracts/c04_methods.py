"""C04 / C02 / C12 - one client method per operation: ClientGenerator.add_method.

Dispatcher proof against recording stand-ins of its callees: the arguments are generated from THIS operation's variable definitions, the
method-local names from those arguments; a subscription with a synchronous client is refused with NotSupported (a documented refusal)
before anything is added; otherwise exactly one template runs - the subscription template for a subscription, the async / sync method
template for the chosen client flavour - with the method name, return type, arguments, arguments dictionary, operation text, the
operation's own name as operation name ("" for none) and the local names; the method it returns is appended to the client class and the
return type is imported from its module (relative import)."""
import ast
import z3
import graphql as G
from pyvc import val as V
from pyvc import models
from pyvc.val import SV, Obj, MList
from pyvc.contract import Contract, self_obj
from pyvc.spec import *   # noqa
from . import lib_graphql as GQ
from . import c03_arguments as _c03       # noqa: F401
from ariadne_codegen.client_generators import client as CL
from ariadne_codegen import exceptions as EX

MODC = "ariadne_codegen.client_generators.client:ClientGenerator."
Val = V.Val
ARGS, ARGS_DICT, NAMES, METHOD = (z3.Const(n, Val) for n in ("generated_arguments", "generated_arguments_dict", "generated_variable_names", "generated_method"))
if EX.NotSupported not in V.REG.by_cls:
    V.REG.register(EX.NotSupported, ["args"])
for _c, _f in ((G.OperationDefinitionNode, ["operation", "name", "variable_definitions", "directives", "selection_set"]),):
    if _c not in V.REG.by_cls:
        V.REG.register(_c, _f)
TEMPLATES = ("_generate_subscription_method_def", "_generate_async_method", "_generate_method")


class FakeMethodDef:
    """what a method template returns: a function definition (its line number is set by add_method; positions do not reach the text)"""


V.REG.register(FakeMethodDef, ["name", "lineno"])


class FakeArgumentsGenerator:
    def _generate(I, o, a, k):
        I.p.effect("call", ("arguments.generate", [V.lower(a[0]) if a else V.lower(k["variable_definitions"])]))
        return (SV(ARGS), SV(ARGS_DICT))
    __pyvc_methods__ = {"generate": _generate}


V.REG.register(FakeArgumentsGenerator, [])


class AddMethod(Contract):
    props = ("C04", "C02", "C12")
    target = MODC + "add_method"
    use_at_calls = False
    frame_args = False
    assume_proved = True
    trusted = ["ArgumentsGenerator.generate (c03_arguments), get_variable_names and the three method templates (c02_documents), _add_import are recording stand-ins here"]

    def setup(self, E):
        from pyvc.interp import ModelMethod
        body = E.mlist("class_body0")
        s = self_obj(CL.ClientGenerator, dict(arguments_generator=Obj(FakeArgumentsGenerator, {}), plugin_manager=None,
                                              _class_def=Obj(ast.ClassDef, {"name": "Client", "bases": [], "keywords": [], "body": body, "decorator_list": []})))
        self._body0 = V.vl(body.t)

        def names(I, o, a, k):
            I.p.effect("call", ("get_variable_names", [V.lower(a[0]) if a else V.lower(k["arguments"])]))
            return SV(NAMES)

        def template(which):
            def run(I, o, a, k):
                if a:
                    from pyvc.interp import Unsupported
                    raise Unsupported("positional arguments to a method template")
                I.p.effect("call", (which, {n: V.lower(v) for n, v in k.items()}))
                return Obj(FakeMethodDef, {"name": SV(METHOD), "lineno": 0})
            return run

        def add_import(I, o, a, k):
            I.p.effect("call", ("_add_import", [V.lower(a[0]) if a else V.lower(k["import_"])]))
            return None
        s.attrs["get_variable_names"] = ModelMethod(s, names, "get_variable_names")
        for t in TEMPLATES:
            s.attrs[t] = ModelMethod(s, template(t), t)
        s.attrs["_add_import"] = ModelMethod(s, add_import, "_add_import")
        op = E.sym("operation", Pred(lambda t: z3.Or(*[t == V.lower(x) for x in G.OperationType]), "operation type"))
        name_node = E.sym("operation_name_node", Opt(GQ.NAME_NODE))
        vdefs = E.sym("variable_definitions", Pred(V.is_VTuple, "tuple"))
        d = Obj(G.OperationDefinitionNode, dict(operation=op, name=name_node, variable_definitions=vdefs))
        self._op, self._name_node, self._vdefs = op, name_node, vdefs
        return [s], dict(definition=d, name=E.sym("name", GQ.NAME), return_type=E.sym("return_type", GQ.NAME), return_type_module=E.sym("return_type_module", GQ.NAME),
                         operation_str=E.sym("operation_str", Str), async_=E.sym_bool("async_"))

    def _facts(self, A):
        calls = [pl for k, pl in A["__effects__"] if k == "call"]
        is_sub = V.lower(self._op) == V.lower(G.OperationType.SUBSCRIPTION)
        return calls, is_sub

    def ensures(self, A, res):
        calls, is_sub = self._facts(A)
        kinds = [c[0] for c in calls]
        used = [c for c in calls if c[0] in TEMPLATES]
        nn = V.lower(self._name_node)
        opname = z3.If(V.is_VNone(nn), S(""), V.attr_of(nn, G.NameNode, "value"))
        out = {"arguments-from-this-operations-variables-then-local-names-from-the-arguments": z3.And(
            z3.BoolVal(kinds[:2] == ["arguments.generate", "get_variable_names"]), *( [calls[0][1][0] == V.lower(self._vdefs), calls[1][1][0] == ARGS] if len(calls) >= 2 else [])),
            "exactly-one-template": z3.BoolVal(len(used) == 1)}
        if len(used) != 1:
            return out
        which, kw = used[0]
        want = z3.If(is_sub, S(TEMPLATES[0]), z3.If(V.vb(A.async_), S(TEMPLATES[1]), S(TEMPLATES[2])))
        out["subscription-template-for-subscriptions-else-the-template-of-the-client-flavour"] = z3.And(S(which) == want, z3.Implies(is_sub, V.vb(A.async_)))
        expected = dict(name=A.name, return_type=A.return_type, arguments=ARGS, arguments_dict=ARGS_DICT, operation_str=A.operation_str, operation_name=opname, variable_names=NAMES)
        out["template-gets-the-method-name-return-type-arguments-text-operation-name-and-local-names"] = z3.And(
            z3.BoolVal(sorted(kw) == sorted(expected)), *[kw[k] == v for k, v in expected.items() if k in kw])
        me = A["__path__"].entry_names["self"]                       # (this path's generator object: its class body after the call)
        body1 = V.vl(V.lower(me.attrs["_class_def"].attrs["body"]))
        method = V.mk_obj(FakeMethodDef, name=METHOD, lineno=V.VInt(V.vl_len(self._body0) + 1))
        out["the-method-is-appended-to-the-client-class"] = z3.And(body1 == V.vl_concat(self._body0, V.VCons(method, V.VNil)),
                                                                    z3.BoolVal(kinds.count("_add_import") == 1))
        imp = next((c[1][0] for c in calls if c[0] == "_add_import"), None)
        if imp is not None:
            out["return-type-imported-from-its-module"] = imp == mk(ast.ImportFrom, module=A.return_type_module, names=lst(mk(ast.alias, name=A.return_type, asname=None)), level=1)
        return out

    def on_raise(self, A, exc_cls, exc):
        calls, is_sub = self._facts(A)
        if exc_cls is EX.NotSupported:
            return {"refused-only-for-a-subscription-with-a-synchronous-client": z3.And(is_sub, z3.Not(V.vb(A.async_))),
                    "nothing-added-before-the-refusal": z3.BoolVal(not [c for c in calls if c[0] in TEMPLATES + ("_add_import",)])}
        return {"documented-refusal-only": z3.BoolVal(False)}

    def replay_custom(self, inputs):
        from .e2e_package import run_case
        rep = dict(inputs={"scenarios": ["default", "sync-client", "subscription-async", "subscription-with-sync-client"]}, failed=[], undetermined=[], pre_ok=True, outcome={}, error=None)
        for n in rep["inputs"]["scenarios"]:
            r = run_case(n)
            rep["outcome"][n] = r.get("failed")
            if r.get("failed"):
                rep["failed"].append("post.exactly-one-template")
        return rep

    def samples(self, tier):
        return [dict(case="packages")]


CONTRACTS = [AddMethod()]
