"""C10 - generation is deterministic: no value whose order comes from iterating a set reaches emitted text.

The interpreter raises an `ord@line` obligation whenever a set is iterated in an order-sensitive position (for loop,
list comprehension) - sorted(...), set(...), membership and any/all are order-insensitive consumers.  The functions of
the anchored files that handle sets are executed under contract here; their functional correctness (C08 ordering) is in
c08_fragments."""
import z3
import graphql as G
from pyvc import val as V
from pyvc.val import SV, Obj, MList, MSet
from pyvc.contract import Contract, self_obj, Args
from pyvc.spec import *   # noqa
from . import lib_graphql as GQ
from ariadne_codegen.client_generators import fragments as FR

SET_OF_NAMES = Cls(V.PySet, elems=ListOf(GQ.NAME, name="all_set_names"))
DEPS = DictOf(GQ.NAME, SET_OF_NAMES, name="dependencies_dict")
MODFR = "ariadne_codegen.client_generators.fragments:FragmentsGenerator."


class Visit(Contract):
    """the recursive closure `visit` of _get_sorted_fragments_names: executed once on arbitrary state; the recursive call
    is cut by this (effect-only) contract: it may extend `visited` and `sorted_names`"""
    props = ("C10", "C08")
    target = MODFR + "_get_sorted_fragments_names.<locals>.visit"
    frame_args = False

    def closure_env(self, E):
        deps = E.sym("dependencies_dict", DEPS)
        E.assume(z3.BoolVal(True))
        self._deps = deps
        return dict(visited=E.mset("visited0", GQ.NAME), sorted_names=E.mlist("sorted_names0", GQ.NAME), dependencies_dict=deps)

    def setup(self, E):
        name = E.sym("name", GQ.NAME)
        E.assume(has(self._deps.t, name.t))      # dependencies_dict has an entry for every generated fragment (call site)
        return [name], {}

    def ensures(self, A, res):
        return {"returns-none": res == V.VNone}

    def apply_at_call(self, I, fn, args, kwargs):
        env = fn.env
        for var in ("visited", "sorted_names"):
            cur = env.lookup(var)
            fresh = I.p.fresh("after_visit_" + var)
            I.p.assume(V.is_VList(fresh))
            if isinstance(cur, MSet):
                cur.elems = V.vl(fresh)
            elif isinstance(cur, MList):
                cur.t = fresh
            else:
                env.assign(var, MList(fresh) if var == "sorted_names" else MSet(V.vl(fresh)))
        return None


class GetSortedFragmentsNames(Contract):
    props = ("C10", "C08")
    target = MODFR + "_get_sorted_fragments_names"
    use_at_calls = False
    frame_args = False

    def setup(self, E):
        return [self_obj(FR.FragmentsGenerator, {})], dict(fragments_names=E.mset("fragments_names", GQ.NAME),
                                                           dependencies_dict=E.sym("dependencies_dict", DEPS))

    def ensures(self, A, res):
        return {"returns-a-list": V.is_VList(res)}


def replay_hash_seeds(inputs=None):
    """native replay of an order obligation: the real function in fresh interpreters with different PYTHONHASHSEED"""
    import json
    import subprocess
    import sys
    prog = (
        "import json, sys\n"
        "from ariadne_codegen.client_generators.fragments import FragmentsGenerator\n"
        "g = FragmentsGenerator.__new__(FragmentsGenerator)\n"
        "names = {'FragA', 'FragB', 'FragC', 'FragD', 'FragE', 'FragF'}\n"
        "deps = {'FragA': {'FragB', 'FragC', 'FragD', 'FragE', 'FragF'}, 'FragB': set(), 'FragC': set(), 'FragD': set(), 'FragE': set(), 'FragF': set()}\n"
        "print(json.dumps(g._get_sorted_fragments_names(fragments_names=names, dependencies_dict=deps)))\n")
    outs = {}
    import os
    for seed in range(8):
        env = dict(os.environ, PYTHONHASHSEED=str(seed))
        r = subprocess.run([sys.executable, "-c", prog], capture_output=True, text=True, env=env, timeout=120)
        outs[seed] = r.stdout.strip() or r.stderr.strip()[-200:]
    rep = dict(inputs={"dependencies_dict": "FragA -> {FragB..FragF}"}, failed=[], undetermined=[], pre_ok=True, outcome=outs, error=None)
    if len(set(outs.values())) > 1:
        rep["failed"].append("ord@line: output differs between hash seeds")
    return rep


Visit.replay_custom = lambda self, inputs: replay_hash_seeds(inputs)
GetSortedFragmentsNames.replay_custom = lambda self, inputs: replay_hash_seeds(inputs)
GetSortedFragmentsNames.samples = lambda self, tier: [dict()]
CONTRACTS = [Visit(), GetSortedFragmentsNames()]
