"""C08 - `every class named by a @mixin(from:, import:) directive on a field or fragment definition is imported and appears as an
additional base of exactly the class generated for that field or fragment`.

ResultTypesGenerator._get_extra_bases_from_mixin_directives(node): exactly one extra base and one import per @mixin directive of the node,
in the order of the directives (other directives contribute nothing); the class name is the directive's `import` argument, the import is
`from <from argument> import <import argument>`; ParsingError escapes only when the argument parser refuses one of the node's @mixin
directives (a documented refusal).  The argument parser (_parse_mixin_arguments, under contract in c08_fragments) enters as a stand-in:
for each directive either a refusal or a dictionary holding both arguments."""
import ast
import z3
import graphql as G
from pyvc import val as V
from pyvc import models
from pyvc.val import SV, Obj, MList
from pyvc.contract import Contract, self_obj
from pyvc.spec import *   # noqa
from . import lib_graphql as GQ
from . import c08_fragments as CF          # noqa: F401  (registers DirectiveNode arguments, ParsingError)
from ariadne_codegen.client_generators import result_types as RT
from ariadne_codegen import exceptions as EX
from ariadne_codegen.client_generators import constants as K

MOD = "ariadne_codegen.client_generators.result_types:ResultTypesGenerator."
ARGS_OF = z3.Function("parsed_mixin_arguments", V.Val, V.Val)            # directive -> the dictionary the parser returns
REFUSED = z3.Function("mixin_directive_refused", V.Val, z3.BoolSort())   # directive -> the parser raises ParsingError for it


def dname(d):
    return V.attr_of(V.attr_of(d, G.DirectiveNode, "name"), G.NameNode, "value")


def is_mixin(d):
    return z3.And(z3.Not(V.is_VNone(V.attr_of(d, G.DirectiveNode, "name"))), dname(d) == S(K.MIXIN_NAME))


def import_name(d):
    return get(ARGS_OF(d), K.MIXIN_IMPORT_NAME)


def import_stmt(d):
    return mk(ast.ImportFrom, module=get(ARGS_OF(d), K.MIXIN_FROM_NAME), names=lst(mk(ast.alias, name=import_name(d), asname=None)), level=0)


mixins_of = SpecMap("mixin_directives_of", lambda d: d, keep_fn=is_mixin)
base_names = SpecMap("mixin_base_names", lambda d: import_name(d))
import_stmts = SpecMap("mixin_imports", lambda d: import_stmt(d))
any_refused = SpecMap("mixin_refused", lambda d: V.VBool(REFUSED(d)))
# the same three, over ALL directives of the node (filtering inside): for code that walks every directive and skips the others
base_names_of_all = SpecMap("mixin_base_names_of_all", lambda d: import_name(d), keep_fn=is_mixin)
import_stmts_of_all = SpecMap("mixin_imports_of_all", lambda d: import_stmt(d), keep_fn=is_mixin)
any_refused_of_all = SpecMap("mixin_refused_of_all", lambda d: V.VBool(z3.And(is_mixin(d), REFUSED(d))))


class ParseMixinArgumentsAtCalls(Contract):
    """call-site stand-in for _parse_mixin_arguments (its own contract: c08_fragments): refuses the directive with ParsingError or
    returns a dictionary that holds the `from` and the `import` argument"""
    target = MOD + "_parse_mixin_arguments"
    assumed = True

    def apply_at_call(self, I, fn, args, kwargs):
        names = self.call_names(fn, args, kwargs, I)
        d = V.lower(names["directive"])
        models._used("contract:" + self.target)
        if I.p.branch(REFUSED(d), "raises@_parse_mixin_arguments:ParsingError"):
            from pyvc.interp import PyRaise
            raise PyRaise(Obj(EX.ParsingError, {"args": ("refused",)}))
        r = ARGS_OF(d)
        I.p.assume(z3.And(V.is_VDict(r), has(r, K.MIXIN_FROM_NAME), has(r, K.MIXIN_IMPORT_NAME),
                          V.is_VStr(get(r, K.MIXIN_FROM_NAME)), V.is_VStr(get(r, K.MIXIN_IMPORT_NAME))))
        return SV(r)


def _inv(rest, xs, st, I, env):
    imports0 = I.ctx.__dict__["mx_imports0"]
    bases = V.vl(st["extra_base_classes"])
    imports = V.vl(st["self._imports"])
    dirs = V.vt(V.lower(env.lookup("node").attrs["directives"]))
    if z3.simplify(xs).eq(z3.simplify(dirs)):
        # the loop walks all directives of the node (and skips the others itself)
        return z3.And(append_map_inv(bases, rest, xs, base_names_of_all), append_map_inv(imports, rest, xs, import_stmts_of_all, init=imports0),
                      any_refused_of_all.any_fn()(rest) == any_refused_of_all.any_fn()(xs))
    # the loop walks a list of the @mixin directives that was selected before
    return z3.And(append_map_inv(bases, rest, xs, base_names), append_map_inv(imports, rest, xs, import_stmts, init=imports0),
                  any_refused.any_fn()(rest) == any_refused.any_fn()(xs))


_inv.extra_mutated = [("self", "_imports"), ("extra_base_classes",)]
DIRECTIVE = Cls(G.DirectiveNode, name=Opt(GQ.NAME_NODE))


class GetExtraBasesFromMixinDirectives(Contract):
    props = ("C08", "C04")
    target = MOD + "_get_extra_bases_from_mixin_directives"
    mutates = ("self",)
    use_at_calls = False
    frame_args = False
    assume_proved = True
    trusted = ["the argument parser is a call-site stand-in (refusal or a dictionary with both arguments); its own contract is in c08_fragments"]
    loops = {"ResultTypesGenerator._get_extra_bases_from_mixin_directives": _inv}

    def setup(self, E):
        s = self_obj(RT.ResultTypesGenerator, dict(_imports=E.mlist("imports0")))
        E.ctx.mx_imports0 = V.vl(s.attrs["_imports"].t)
        node = Obj(G.FieldNode, dict(directives=E.sym("directives", Opt(TupleOf(DIRECTIVE, name="node_directives")))))
        self._dirs = node.attrs["directives"]
        return [s, node], {}

    def _mixins(self, A):
        ds = V.vt(V.lower(self._dirs))
        p = A.get("__path__")
        return mixins_of.apply(p, ds) if p is not None else mixins_of(ds)

    def _fusion(self, A):
        """filter-then-map = map-with-filter over all directives (instances for this node; each by induction on the list)"""
        ds = V.vt(V.lower(self._dirs))
        ms = mixins_of(ds)
        V.LEMMAS.append(base_names(ms) == base_names_of_all(ds))
        V.LEMMAS.append(import_stmts(ms) == import_stmts_of_all(ds))
        V.LEMMAS.append(any_refused.any_fn()(ms) == any_refused_of_all.any_fn()(ds))

    def ensures(self, A, res):
        self._fusion(A)
        ms = self._mixins(A)
        i0 = V.vl(V.attr_of(A.self, RT.ResultTypesGenerator, "_imports"))
        i1 = V.vl(V.attr_of(A.final_self, RT.ResultTypesGenerator, "_imports"))
        none = z3.Not(truthy(V.lower(self._dirs)))
        return {"one-extra-base-per-mixin-directive-in-order": res == V.VList(z3.If(none, V.VNil, base_names(ms))),
                "one-import-per-mixin-directive-in-order": i1 == z3.If(none, i0, V.vl_concat(i0, import_stmts(ms))),
                "returns-only-when-no-mixin-directive-is-refused": z3.Or(none, z3.Not(any_refused.any_fn()(ms)))}

    def on_raise(self, A, exc_cls, exc):
        if exc_cls is EX.ParsingError:
            self._fusion(A)
            return {"parsing-error-only-when-a-mixin-directive-of-the-node-is-refused": any_refused.any_fn()(self._mixins(A))}
        return {"documented-refusal-only": z3.BoolVal(False)}

    def replay_custom(self, inputs):
        return replay_mixins()

    def samples(self, tier):
        return [dict(case="fields")]


def replay_mixins():
    """native cross-check: the real method on fields with 0-3 directives"""
    rep = dict(inputs={"fields": "0-3 directives, @mixin next to others, a malformed one"}, failed=[], undetermined=[], pre_ok=True, outcome={}, error=None)
    cases = {'f': ([], []), 'f @include(if: true)': ([], []), 'f @mixin(from: "a.b", import: "C")': (["C"], [("a.b", "C")]),
             'f @mixin(from: "m", import: "X") @skip(if: false) @mixin(from: "n.o", import: "Y")': (["X", "Y"], [("m", "X"), ("n.o", "Y")]),
             'f @mixin(import: "C")': None, 'f @mixin(from: "a", import: "C") @mixin(from: 1, import: "D")': None}
    for src, want in cases.items():
        node = G.parse("{ %s }" % src).definitions[0].selection_set.selections[0]
        g = RT.ResultTypesGenerator.__new__(RT.ResultTypesGenerator)
        g._imports = ["earlier"]
        try:
            got = g._get_extra_bases_from_mixin_directives(node)
        except EX.ParsingError:
            rep["outcome"][src] = "ParsingError"
            if want is not None:
                rep["failed"].append("raises[ParsingError].parsing-error-only-when-a-mixin-directive-of-the-node-is-refused")
            continue
        except Exception as e:   # noqa
            rep["outcome"][src] = repr(e)
            rep["failed"].append("raises.documented-refusal-only")
            continue
        imps = [(i.module, i.names[0].name) for i in g._imports[1:]]
        rep["outcome"][src] = dict(bases=got, imports=imps)
        if want is None:
            rep["failed"].append("post.returns-only-when-no-mixin-directive-is-refused")
        elif got != want[0]:
            rep["failed"].append("post.one-extra-base-per-mixin-directive-in-order")
        elif imps != want[1] or g._imports[0] != "earlier" or any(i.level != 0 for i in g._imports[1:]):
            rep["failed"].append("post.one-import-per-mixin-directive-in-order")
    rep["failed"] = sorted(set(rep["failed"]))
    return rep


CONTRACTS = [ParseMixinArgumentsAtCalls(), GetExtraBasesFromMixinDirectives()]
