"""Which contract modules serve which property (the properties themselves are fixed in properties.jsonl)."""

from . import _bounded

PROPERTIES = {
    "C12": dict(
        modules=["contracts.c12_get_data", "contracts.c02_documents", "contracts.c04_methods"],
        bounded=[_bounded.lazy("contracts.e2e_plugins", "bounded_plugins"), _bounded.lazy("contracts.e2e_variables", "bounded_method_locals"), _bounded.lazy("contracts.e2e_outcomes", "bounded_outcomes")],
        explanation="get_data of the four bundled base clients against the decision table of the statement; loop-free apart "
                    "from one comprehension (handled by map extensionality), so the symbolic execution over full-domain "
                    "status/body inputs is a complete proof",
        assumptions=["generated method template (data = self.get_data(response); return T.model_validate(data)) is covered under C04/C01 contracts, not here"],
    ),
    "C13": dict(
        modules=["contracts.c13_ws"],
        bounded=[_bounded.lazy("contracts.e2e_plugins", "bounded_plugins"), _bounded.lazy("contracts.e2e_variables", "bounded_method_locals"),
                 _bounded.lazy("contracts.c11_multipart", "bounded_constructors")],
        explanation="frame handler outcome table (complete: loop-free), senders, and the subscription iterator with a "
                    "prefix invariant over the server's frame sequence",
        assumptions=["interoperability with a live websockets server beyond the call signature is outside this family"],
    ),
    "C11": dict(
        modules=["contracts.c11_clients", "contracts.c11_separate"],
        bounded=[_bounded.lazy("contracts.e2e_outcomes", "bounded_outcomes"), _bounded.lazy("contracts.c11_multipart", "bounded_separation"), _bounded.lazy("contracts.c11_multipart", "bounded_wire"),
                 _bounded.lazy("contracts.c11_multipart", "bounded_agreement"), _bounded.lazy("contracts.c11_multipart", "bounded_constructors")],
        explanation="run-time base clients: value conversion, JSON and multipart request construction, variables processing and the "
                    "json/multipart/telemetry dispatchers (each proved against recording stand-ins of its callees), one shared contract "
                    "instantiated for each of the four bundled clients; upload separation: the recursive closure separate_files under contract (nulled result, frame, unfolding equations, bookkeeping invariant), the enclosing method by the exhaustive bounded stand-in",
        assumptions=["bytes on the wire for multipart are httpx's", "interleavings inside httpx are outside this family"],
    ),
    "C06": dict(
        modules=["contracts.c06_input_types", "contracts.c06_defaults", "contracts.c18_names", "contracts.c09_pruning", "contracts.c04_modules", "contracts.c11_clients", "contracts.c09_closure"],
        bounded=[_bounded.lazy("contracts.e2e_scalars", "bounded_scalar_positions"), _bounded.lazy("contracts.c09_pruning", "bounded_pruning"), _bounded.lazy("contracts.e2e_variables", "bounded_variables"),
                 _bounded.lazy("contracts.c11_multipart", "bounded_agreement"), _bounded.lazy("contracts.e2e_fuzz_inputs", "bounded_generated_inputs")],
        explanation="input type translator and default-literal translator against the image/coercion spec functions, by structural induction",
        assumptions=["acceptance/refusal of concrete values by the emitted annotations is pydantic's (assumed contract)"],
    ),
    "C05": dict(
        modules=["contracts.c05_result_fields", "contracts.c01_results", "contracts.c04_modules", "contracts.c01_inline", "contracts.c01_subtype", "contracts.c01_resolve", "contracts.c01_interface", "contracts.c01_typedef", "contracts.c05_typenames"],
        bounded=[_bounded.lazy("contracts.e2e_results", "bounded_results"), _bounded.lazy("contracts.e2e_fuzz", "bounded_generated_operations")],
        explanation="result field type translator against the image spec by structural induction (non-abstract positions), "
                    "directive handling, typename literal",
        assumptions=["rejection of corrupted payloads by the emitted annotations is pydantic's (assumed contract)"],
    ),
    "C07": dict(
        modules=["contracts.c07_scalars", "contracts.c05_result_fields", "contracts.c06_input_types", "contracts.c14_builder"],
        bounded=[_bounded.lazy("contracts.c11_multipart", "bounded_wire"), _bounded.lazy("contracts.e2e_scalars", "bounded_scalar_positions"),
                 _bounded.lazy("contracts.e2e_pruning", "bounded_pruned_packages")],
        explanation="scalar annotation placement through the C05/C06 translator contracts, top-level variable serialisation",
        assumptions=["pydantic runs BeforeValidator/PlainSerializer once per non-null occurrence under Optional/List (assumed)"],
    ),
    "C18": dict(
        modules=["contracts.c18_names", "contracts.c04_modules", "contracts.c11_clients", "contracts.c14_builder"],
        bounded=[_bounded.lazy("contracts.c18_names", "bounded_names"), _bounded.lazy("contracts.c18_names", "bounded_pairs"),
                 _bounded.lazy("contracts.c18_names", "bounded_wire_names"),
                 _bounded.lazy("contracts.e2e_variables", "bounded_variables"), _bounded.lazy("contracts.e2e_builder", "bounded_builder"),
                 _bounded.lazy("contracts.e2e_outcomes", "bounded_outcomes")],
        explanation="process_name for all strings in SMT string theory; str_to_snake_case by exhaustive bounded enumeration",
        assumptions=["A_snake: assumed contract on str_to_snake_case (regex lookahead is outside the solvers' fragment), bounded stand-in only"],
    ),
    "C19": dict(
        modules=["contracts.c19_sources", "contracts.c06_input_types", "contracts.c06_defaults", "contracts.c04_modules"],
        bounded=[_bounded.lazy("contracts.e2e_sources", "bounded_sources"), _bounded.lazy("contracts.e2e_config", "bounded_bad_remote_urls")],
        explanation="introspection decision chain (complete, loop-free), header resolution, file discovery (walk_graphql_files) "
                    "with a trace invariant; defaults through the C06 contracts; equality of the clients generated from the three "
                    "sources by the end-to-end stand-in",
        assumptions=["equality of whole generated packages across sources is decided only on the stand-in's corpus (bounded)"],
    ),
    "C17": dict(
        modules=["contracts.c17_settings"],
        bounded=[_bounded.lazy("contracts.e2e_config", "bounded_rejections")],
        explanation="configuration validators (raise iff constraint violated), header resolution with frame, section lookup; the "
                    "whole commands on single-constraint violations with a snapshot of the target tree by the end-to-end stand-in",
        assumptions=["schema validity is graphql-core's (assert_valid_schema); file system predicates are the OS's"],
    ),
    "C09": dict(
        modules=["contracts.c04_package", "contracts.c09_pruning", "contracts.c09_closure"],
        bounded=[_bounded.lazy("contracts.c09_pruning", "bounded_pruning"), _bounded.lazy("contracts.e2e_pruning", "bounded_pruned_packages")],
        explanation="accumulation of used enums / inputs in the package orchestration and in InputTypesGenerator; the closure (dfs, _get_dependencies_of_type) proved with arbitrary-name clauses and the contract as induction hypothesis; the exhaustive bounded stand-in stays next to it",
        assumptions=["textual identity of retained definitions also depends on autoflake/isort/black (assumed)"],
    ),
    "C10": dict(
        modules=["contracts.c10_order"],
        ordscan=["ariadne_codegen.client_generators.fragments", "ariadne_codegen.client_generators.result_types",
                 "ariadne_codegen.client_generators.package", "ariadne_codegen.schema", "ariadne_codegen.contrib.client_forward_refs",
                 "ariadne_codegen.contrib.shorter_results", "ariadne_codegen.contrib.extract_operations",
                 "ariadne_codegen.client_generators.comments", "ariadne_codegen.client_generators.input_types",
                 "ariadne_codegen.client_generators.enums", "ariadne_codegen.client_generators.init_file",
                 "ariadne_codegen.client_generators.client", "ariadne_codegen.client_generators.custom_fields",
                 "ariadne_codegen.client_generators.custom_generator_utils", "ariadne_codegen.client_generators.arguments",
                 "ariadne_codegen.graphql_schema_generators.schema", "ariadne_codegen.graphql_schema_generators.named_types",
                 "ariadne_codegen.graphql_schema_generators.fields", "ariadne_codegen.graphql_schema_generators.directives"],
        ord_replay=_bounded.lazy0("contracts.e2e_determinism", "replay_generation"),
        bounded=[_bounded.lazy("contracts.e2e_determinism", "bounded_generation")],
        explanation="order-dependence obligations (set iteration must not reach emitted text) on the functions that handle sets",
        assumptions=["isort/black determinism; equality across two processes beyond order-independence is outside one call's contract"],
    ),
    "C08": dict(
        modules=["contracts.c08_fragments", "contracts.c10_order", "contracts.c01_inline", "contracts.c01_subtype", "contracts.c01_resolve", "contracts.c01_interface", "contracts.c08_order", "contracts.c08_mixins", "contracts.c01_typedef"],
        bounded=[_bounded.lazy("contracts.c08_fragments", "bounded_fragment_order"), _bounded.lazy("contracts.e2e_fragments", "bounded_scenarios"),
                 _bounded.lazy("contracts.e2e_plugins", "bounded_plugins"), _bounded.lazy("contracts.e2e_results", "bounded_results"),
                 _bounded.lazy("contracts.e2e_fuzz", "bounded_generated_operations")],
        explanation="@mixin argument parsing, the mixin-vs-unpack decision, the selection-set layer (which spread fragments become bases of a class) and the fragment sorter (every dependency precedes its dependant, ghost rank) under contract; fragment class ordering also by exhaustive bounded stand-in",
        assumptions=["that a class listed as base validates the same payload is pydantic's inheritance (assumed)"],
    ),
    "C16": dict(
        modules=["contracts.c16_schema"],
        bounded=[_bounded.lazy("contracts.e2e_schema", "bounded_round_trip"), _bounded.lazy("contracts.e2e_fuzz_schema", "bounded_generated_schemas")],
        explanation="schema generator functions against the constructor-call AST that rebuilds the object; end-to-end round trip as bounded stand-in",
        assumptions=["graphql-core constructors: keyword -> attribute; ast.Constant printed by repr and read back equal (str/int/float/bool/None/list/dict)"],
    ),
    "C14": dict(
        modules=["contracts.c14_builder", "contracts.c14_generated"],
        bounded=[_bounded.lazy("contracts.e2e_builder", "bounded_builder"), _bounded.lazy("contracts.e2e_fuzz_builder", "bounded_generated_expressions"),
                 _bounded.lazy("contracts.e2e_scalars", "bounded_scalar_positions")],
        explanation="run-time builder: fresh variable names, argument/field-name nodes under contract; the document-assembly methods the generator emits into every client (extracted from a freshly generated async and sync client on every run) under contract; whole documents by an end-to-end bounded stand-in",
        assumptions=["termination of _format_variable_name's renaming loop is not proved"],
    ),
    "C15": dict(
        modules=["contracts.c15_plugins", "contracts.c02_documents"],
        bounded=[_bounded.lazy("contracts.c15_plugins", "bounded_hook_order"), _bounded.lazy("contracts.e2e_plugins", "bounded_plugins")],
        explanation="plugin manager fold, hook forwarding, identity of the base hooks, NoReimports; plugged packages by an end-to-end bounded stand-in",
        assumptions=["equivalence of whole plugged and unplugged packages on scripted responses is sampled, not proved"],
    ),
    "C03": dict(
        modules=["contracts.c03_arguments", "contracts.c11_clients", "contracts.c06_input_types", "contracts.c06_defaults", "contracts.c07_scalars", "contracts.c13_ws"],
        bounded=[_bounded.lazy("contracts.e2e_variables", "bounded_method_locals"), _bounded.lazy("contracts.e2e_variables", "bounded_variables"),
                 _bounded.lazy("contracts.c11_multipart", "bounded_separation"), _bounded.lazy("contracts.c11_multipart", "bounded_wire"),
                 _bounded.lazy("contracts.e2e_fuzz_inputs", "bounded_generated_inputs")],
        explanation="variable annotation translator, local-name freshness, run-time value conversion; whole calls by an end-to-end bounded stand-in with graphql-core's variable coercion",
        assumptions=["that dumped JSON coerces to the caller's values is pydantic's and graphql-core's (assumed, sampled by the stand-in)"],
    ),
    "C04": dict(
        modules=["contracts.c04_package", "contracts.c04_modules", "contracts.c08_fragments", "contracts.c18_names", "contracts.c04_methods"],
        bounded=[_bounded.lazy("contracts.e2e_package", "bounded_packages"), _bounded.lazy("contracts.c08_fragments", "bounded_fragment_order"),
                 _bounded.lazy("contracts.e2e_fragments", "bounded_scenarios"), _bounded.lazy("contracts.e2e_pruning", "bounded_pruned_packages")],
        explanation="package orchestration (order of steps, reported files), module-level generators (init __all__, enum members), documented refusals; whole packages by an end-to-end bounded stand-in (import of every generated module)",
        assumptions=["that formatted modules import is autoflake/isort/black/pydantic's (assumed, sampled by the stand-in)"],
    ),
    "C02": dict(
        modules=["contracts.c02_documents", "contracts.c17_settings", "contracts.c03_arguments", "contracts.c02_reachable", "contracts.c01_typedef", "contracts.c04_methods"],
        bounded=[_bounded.lazy("contracts.e2e_variables", "bounded_method_locals"), _bounded.lazy("contracts.e2e_documents", "bounded_documents"),
                 _bounded.lazy("contracts.c11_multipart", "bounded_wire"), _bounded.lazy("contracts.e2e_fuzz", "bounded_generated_documents")],
        explanation="method-body templates (the bound query text is what is sent, under every renaming of the method locals), operation validation rule set; whole documents by an end-to-end bounded stand-in",
        assumptions=["embedding of the text in Python source (splitlines, ast.unparse, regex rewrite, isort, black) is outside the solvers' fragment: bounded stand-in only"],
    ),
    "C01": dict(
        modules=["contracts.c01_results", "contracts.c05_result_fields", "contracts.c04_modules", "contracts.c01_inline", "contracts.c01_subtype", "contracts.c01_resolve", "contracts.c01_interface", "contracts.c01_typedef", "contracts.c05_typenames"],
        bounded=[_bounded.lazy("contracts.e2e_results", "bounded_results"), _bounded.lazy("contracts.e2e_pruning", "bounded_pruned_packages"),
                 _bounded.lazy("contracts.e2e_fuzz", "bounded_generated_operations")],
        explanation="union / non-abstract / interface translators, field implementation and the selection-set resolution (fields and bases of a class, classes of an interface field) under contract; acceptance, typed instances and round trip by the reference-executor stand-in",
        assumptions=["pydantic validates the emitted annotation forms as their names say (assumed; exercised by the stand-in)"],
    ),
}
