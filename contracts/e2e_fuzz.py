"""Bounded stand-in for C01 / C05 / C08 with *generated* operations: a seeded grammar over the schema of e2e_results builds
operations (aliases, plain __typename, @include/@skip on nullable leaf fields, nested objects and lists, inline fragments
on member object types of interfaces and unions, named fragments on object and abstract types, fragments spreading
another fragment) and hands each to the reference-executor check of e2e_results (every conformant response accepted,
typed, round-tripped; single-point corruptions rejected).  The grammar leaves out the shapes of the recorded findings
(F23, F24, F25, F36, F42, F45): they have their own listed scenarios.  Deterministic: the seed fixes the operations."""
import random
import graphql as G
from . import e2e_results as R

ABSTRACT_MEMBERS = {"Node": ["User", "Bot", "Ghost"], "Named": ["User"], "Labeled": ["Doc", "Pic"], "Actor": ["User", "Bot"], "Solo": ["Bot"]}


class Gen:
    def __init__(self, seed):
        self.r = random.Random(seed)
        self.schema = G.build_schema(R.SCHEMA)
        self.n_alias = 0
        self.fragments = []
        self.uses_flag = False

    def named(self, t):
        while isinstance(t, (G.GraphQLNonNull, G.GraphQLList)):
            t = t.of_type
        return t

    def alias(self):
        self.n_alias += 1
        return f"al{self.n_alias}"

    def leaf(self, name, ftype):
        out = name
        if self.r.random() < 0.2:
            out = f"{self.alias()}: {name}"
        if not isinstance(ftype, G.GraphQLNonNull) and self.r.random() < 0.15:
            self.uses_flag = True
            out += self.r.choice([" @include(if: $c)", " @skip(if: $c)"])
        return out

    def object_selection(self, tname, depth, allow_fragment=True, exclude=()):
        t = self.schema.type_map[tname]
        fields = [(n, f) for n, f in t.fields.items() if not f.args and n not in exclude]
        self.r.shuffle(fields)
        parts = []
        if self.r.random() < 0.25:
            parts.append("__typename")
        take = self.r.randint(1, min(4, len(fields)))
        for n, f in fields[:take]:
            nt = self.named(f.type)
            if isinstance(nt, (G.GraphQLScalarType, G.GraphQLEnumType)):
                parts.append(self.leaf(n, f.type))
            elif depth > 0:
                key = f"{self.alias()}: {n}" if self.r.random() < 0.2 else n
                parts.append(f"{key} {{ {self.selection(nt.name, depth - 1)} }}")
        if not [p for p in parts if p != "__typename"]:
            n, f = next((n, f) for n, f in t.fields.items() if isinstance(self.named(f.type), (G.GraphQLScalarType, G.GraphQLEnumType)))
            parts.append(n)
        chosen_objects = {n for n, f in fields[:take] if not isinstance(self.named(f.type), (G.GraphQLScalarType, G.GraphQLEnumType))}
        if allow_fragment and depth > 0 and self.r.random() < 0.3:
            fname = f"F{len(self.fragments)}{tname}"
            self.fragments.append(None)
            # (an object field selected here and in the base fragment with another sub-selection is finding F45: own scenario)
            body = self.object_selection(tname, depth - 1, allow_fragment=self.r.random() < 0.4, exclude=tuple(chosen_objects) + tuple(exclude))
            self.fragments[int(fname[1:len(fname) - len(tname)])] = f"fragment {fname} on {tname} {{ {body} }}"
            parts.insert(self.r.randint(0, len(parts)), f"...{fname}")
        return " ".join(parts)

    def abstract_selection(self, tname, depth):
        t = self.schema.type_map[tname]
        parts = []
        if self.r.random() < 0.5:
            parts.append("__typename")
        if isinstance(t, G.GraphQLInterfaceType):
            for n, f in t.fields.items():
                if self.r.random() < 0.7 and isinstance(self.named(f.type), (G.GraphQLScalarType, G.GraphQLEnumType)):
                    parts.append(n)
        members = list(ABSTRACT_MEMBERS[tname])
        self.r.shuffle(members)
        for m in members[:self.r.randint(0 if parts else 1, len(members))]:
            body = self.object_selection(m, max(depth - 1, 0), allow_fragment=False)
            if self.r.random() < 0.3:
                fname = f"F{len(self.fragments)}{m}"
                self.fragments.append(f"fragment {fname} on {m} {{ {body} }}")
                parts.append(f"...{fname}" if self.r.random() < 0.5 else f"... on {m} {{ ...{fname} }}")
            else:
                parts.append(f"... on {m} {{ {body} }}")
        if not parts:
            parts.append("__typename")
        # the whole selection behind a fragment on the abstract type (it is unpacked because of its inline fragments)
        if any(p.startswith("... on ") for p in parts) and self.r.random() < 0.25:
            fname = f"F{len(self.fragments)}{tname}"
            self.fragments.append(f"fragment {fname} on {tname} {{ {' '.join(parts)} }}")
            return f"...{fname}"
        return " ".join(parts)

    def selection(self, tname, depth):
        t = self.schema.type_map[tname]
        if isinstance(t, (G.GraphQLInterfaceType, G.GraphQLUnionType)):
            return self.abstract_selection(tname, depth)
        return self.object_selection(tname, depth)

    def operation(self):
        q = self.schema.query_type
        roots = list(q.fields.items())
        self.r.shuffle(roots)
        parts = []
        for n, f in roots[:self.r.randint(1, 3)]:
            key = f"{self.alias()}: {n}" if self.r.random() < 0.3 else n
            parts.append(f"{key} {{ {self.selection(self.named(f.type).name, 2)} }}")
        head = "query Q($c: Boolean!)" if self.uses_flag else "query Q"
        return " ".join(f for f in self.fragments if f) + f" {head} {{ {' '.join(parts)} }}"


def operations(n, seed):
    out = []
    k = 0
    while len(out) < n:
        k += 1
        text = Gen(seed * 100003 + k).operation()
        doc = G.parse(text)
        if G.validate(G.build_schema(R.SCHEMA), doc):
            continue        # (the grammar can produce overlapping fields that cannot merge: such a text is not an operation)
        out.append((f"generated-{seed}-{k}", text))
    return out


def bounded_generated_operations(tier, seed):
    n = 24 if tier == "quick" else 150
    fails, total = [], 0
    for name, text in operations(n, 7):
        r = R.check_operation(name, text, snake=True)
        total += r["outcome"].get("responses", 0) if isinstance(r["outcome"], dict) else 0
        if r["failed"]:
            r["inputs"]["operation"] = text
            fails.append(r)
    return dict(function="ariadne_codegen.client_generators.result_types:ResultTypesGenerator", name="bounded.generated-operations",
                kind="bounded stand-in (seeded operation grammar, reference executor, end to end)",
                domain=f"{n} generated operations (fixed seed) x every conformant response + single-point corruptions", cases=total,
                failed=len(fails), failures=fails)


if __name__ == "__main__":
    import sys
    for name, text in operations(int(sys.argv[1]) if len(sys.argv) > 1 else 10, int(sys.argv[2]) if len(sys.argv) > 2 else 7):
        r = R.check_operation(name, text)
        print(name, r["failed"], "" if not r["failed"] else text, "" if not r["failed"] else str(r["outcome"])[:400])


def documents(n_docs, seed, per_doc=4):
    """operation files: several generated operations (and all their fragments) in one document, definitions shuffled"""
    ops = operations(n_docs * per_doc, seed)
    out = []
    for i in range(n_docs):
        defs = []
        for j, (_, text) in enumerate(ops[i * per_doc:(i + 1) * per_doc]):
            doc = G.parse(text)
            ren = {d.name.value: f"D{i}O{j}{d.name.value}" for d in doc.definitions if isinstance(d, G.FragmentDefinitionNode)}

            class Ren(G.Visitor):
                def enter_fragment_definition(self, node, *_):
                    node.name = G.NameNode(value=ren[node.name.value])
                    return node

                def enter_fragment_spread(self, node, *_):
                    node.name = G.NameNode(value=ren[node.name.value])
                    return node

                def enter_operation_definition(self, node, *_):
                    node.name = G.NameNode(value=["getAlpha", "Beta", "list_gamma", "DeltaOp"][j % 4] + str(i))
                    return node
            doc = G.visit(doc, Ren())
            defs += [G.print_ast(d) for d in doc.definitions]
        random.Random(seed + i).shuffle(defs)
        out.append((f"generated-document-{seed}-{i}", "\n".join(defs)))
    return out


def bounded_generated_documents(tier, seed):
    """C02 on generated operation files: every operation is sent with its own name, its text and exactly the fragments it reaches"""
    from . import e2e_documents as D
    n = 5 if tier == "quick" else 30
    fails = []
    saved_schema = D.SCHEMA
    D.SCHEMA = R.SCHEMA
    try:
        for name, text in documents(n, 11):
            D.SCENARIOS[name] = text
            try:
                r = D.check_scenario(name)
            finally:
                D.SCENARIOS.pop(name, None)
            if r["failed"]:
                r["inputs"]["document"] = text
                fails.append(r)
    finally:
        D.SCHEMA = saved_schema
    return dict(function="ariadne_codegen.client_generators.result_types:ResultTypesGenerator.get_operation_as_str", name="bounded.generated-documents",
                kind="bounded stand-in (seeded operation grammar, end to end)", domain=f"{n} generated operation files of 4 operations each (fixed seed)",
                cases=n * 4, failed=len(fails), failures=fails)
