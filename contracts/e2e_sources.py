"""C19, first sentence - `the same schema supplied as one SDL file, as a directory tree of .graphql/.graphqls/.gql files
in any split, or through introspection of a remote endpoint yields the same client for the same operations`.

Bounded stand-in (native, never counted as proved): for each schema of a small corpus the REAL generator is run
  (a) on one SDL file,
  (b) on every listed partition of its definitions into a directory tree (sub-directories, the three extensions, the
      same base name in two directories, a non-graphql file that must be ignored),
  (c) through `remote_schema_url`, the introspection query answered in-process by graphql-core executing on the SDL
      (httpx.post patched), with and without descriptions in the introspection result,
and the packages are compared: (b) file by file with (a); (c) with (a) on every module except that doc strings / comments
may differ, and for `input_types.py` on the required-ness and the default value of every field of every input model
(instances built without the field read back equal values).
"""
import contextlib
import importlib
import io
import json
import os
import shutil
import sys
import tempfile
import uuid
from unittest import mock

from . import e2e

SCHEMA_A = '''
schema { query: Query mutation: Mutation }
"""root"""
directive @oneOf on INPUT_OBJECT
directive @tagged(name: String) on FIELD_DEFINITION | INPUT_FIELD_DEFINITION | OBJECT | ENUM_VALUE | ARGUMENT_DEFINITION
type Query { node(id: ID!): Node  nodes: [Node!]  ranked(limit: Int! = 10, kind: Kind! = B, tags: [String!]! = ["t"]): [User!]  user(id: ID!, filter: Filter): User  lookup(by: Lookup @tagged(name: "arg")): User  search(text: String = "x", kinds: [Kind!] = [A]): [Result!]!  _service(where: _text_exp, any: _Any): _Service }
type Mutation { update(data: UserInput!, opts: Options = {dry: true, level: 2}): User }
"""a user"""
type User implements Node { id: ID! name: String kind: Kind! friends: [User!] seen: Instant uid: Ident }
type Post implements Node { id: ID! title: String! }
type Zebra implements Node { id: ID! stripes: Int }
type Mango implements Node { id: ID! }
type Apple implements Node { id: ID! }
interface Node { id: ID! }
union Result = User | Post
enum Kind {
  "first kind"
  A
  """second kind
  on two lines"""
  B
  None
}
type _Service { sdl: String }
scalar _Any
input _text_exp { _eq: String _in: [String!] }
input Filter { kind: Kind = B  tags: [String!] = ["t", "u"]  limit: Int! = 10  nested: Options  ratio: Float = 1.5  on: Boolean! = false }
input Options { dry: Boolean = false  level: Int! = 1  kinds: [Kind] = [A, null]  inner: Inner = {v: "q", k: B} }
input Inner { v: String!  k: Kind = A  more: [Inner!] }
input UserInput { name: String!  age: Int  filter: Filter = {limit: 3}  camelCase: String = "cc"  when: DateTime }
scalar DateTime @specifiedBy(url: "https://tools.ietf.org/html/rfc3339")
"a scalar without configuration: Any from every source, whatever its SDL says"
scalar Instant @specifiedBy(url: "https://tools.ietf.org/html/rfc3339")
scalar Ident @specifiedBy(url: "https://tools.ietf.org/html/rfc4122")
"information that only the SDL carries (applied directives) must not change what is generated"
input Lookup @oneOf { byId: ID @tagged(name: "x")  byName: String  at: DateTime  seen: Instant  uid: Ident }
'''

QUERIES_A = '''
query GetUser($id: ID!, $f: Filter = {limit: 2}) { user(id: $id, filter: $f) { id name kind friends { id } } }
query Search($t: String, $k: [Kind!]) { search(text: $t, kinds: $k) { __typename ... on User { id name } ... on Post { title } } }
mutation Update($d: UserInput!, $o: Options) { update(data: $d, opts: $o) { id } }
query Service($w: _text_exp) { _service(where: $w) { sdl } }
query GetNode($id: ID!) { node(id: $id) { __typename id ... on User { name } } nodes { __typename ... on Zebra { stripes } } }
query Lookup($by: Lookup, $at: DateTime!, $seen: Instant!) { lookup(by: $by) { id seen uid } again: lookup(by: {at: $at}) { id } more: lookup(by: {seen: $seen}) { id } }
'''

SCHEMA_B = '''
schema { query: Query }
type Mut { ping(n: Int = 3): Int }
extend schema { mutation: Mut }
type Query { things(where: Where = {a: 1}): [Thing] }
type Thing { a: Int  b: [Int!]!  c: Color }
enum Color { RED GREEN }
input Where { a: Int! = 0  color: Color! = GREEN  ids: [ID!]! = ["1", "2"]  deep: [[Int]] = [[1, null], []]  note: String = null  req: String! }
'''
QUERIES_B = 'query Things($w: Where) { things(where: $w) { a b c } } mutation Ping($n: Int) { ping(n: $n) }'

CORPUS = [("A", SCHEMA_A, QUERIES_A), ("B", SCHEMA_B, QUERIES_B)]


def _definitions(sdl):
    from graphql import parse, print_ast
    return [print_ast(d) for d in parse(sdl).definitions]


def _partitions(defs, tier):
    """(name, {relative path: [definition indices]}, extra files)"""
    n = len(defs)
    idx = list(range(n))
    parts = [
        ("one-file-per-definition-reversed-names", {f"z{n - i:02d}.graphql": [i] for i in idx}),
        ("two-files-mixed-extensions", {"a.gql": idx[::2], "b.graphqls": idx[1::2]}),
        ("nested-directories", {"types/x.graphql": idx[: n // 3], "types/deep/er/y.gql": idx[n // 3: 2 * n // 3], "z.graphql": idx[2 * n // 3:]}),
        ("same-base-name-in-two-directories", {"one/schema.graphql": idx[: n // 2], "two/schema.graphql": idx[n // 2:]}),
        ("same-base-name-different-extension", {"schema.graphql": idx[: n // 2], "schema.gql": idx[n // 2:]}),
    ]
    if tier != "quick":
        parts += [("three-files-round-robin", {f"d{k}/p{k}.graphql": idx[k::3] for k in range(3)}),
                  ("everything-in-a-deep-file", {"a/b/c/d/all.graphqls": idx})]
    return parts


def _write_tree(root, defs, layout):
    d = os.path.join(root, "schema_dir")
    for rel, ids in layout.items():
        p = os.path.join(d, rel)
        os.makedirs(os.path.dirname(p), exist_ok=True)
        with open(p, "w") as f:
            # no newline at the end of the file, and the last line is a comment: the files must be joined with a separator
            f.write("\n\n".join(defs[i] for i in ids) + "\n# end of " + rel)
    # files that must be ignored
    with open(os.path.join(d, "README.txt"), "w") as f:
        f.write("not graphql {")
    with open(os.path.join(d, "notes.graphql.bak"), "w") as f:
        f.write("type Broken {")
    return d


def _generate(cfg_extra, queries, patch_post=None, root=None):
    from ariadne_codegen.main import client
    os.makedirs(e2e.SCRATCH, exist_ok=True)
    root = root or tempfile.mkdtemp(prefix="src_", dir=e2e.SCRATCH)
    pkg = "client_pkg"
    with open(os.path.join(root, "queries.graphql"), "w") as f:
        f.write(queries)
    cfg = dict(target_package_name=pkg, target_package_path=root, include_comments="none", plugins=[],
               queries_path=os.path.join(root, "queries.graphql"),
               scalars={"DateTime": {"type": "datetime.datetime"}},
               # the query builder's modules are part of the client, too (their signatures must not depend on the source either)
               enable_custom_operations=True)
    cfg.update(cfg_extra(root))
    out = io.StringIO()
    ctx = mock.patch("ariadne_codegen.schema.httpx.post", patch_post) if patch_post else contextlib.nullcontext()
    try:
        with contextlib.redirect_stdout(out), ctx:
            client({"tool": {"ariadne-codegen": cfg}})
        files = {}
        for fn in sorted(os.listdir(os.path.join(root, pkg))):
            files[fn] = open(os.path.join(root, pkg, fn)).read()
        return root, files
    except BaseException:
        shutil.rmtree(root, ignore_errors=True)
        raise


def _fake_post(sdl, descriptions):
    import httpx
    from graphql import build_schema, graphql_sync

    def post(url, json=None, headers=None, verify=True, **kw):     # noqa: A002
        post.seen.append(dict(url=url, headers=dict(headers or {}), verify=verify, extra=sorted(kw)))
        schema = build_schema(sdl)
        res = graphql_sync(schema, json["query"])
        data = res.data
        if not descriptions:
            def strip(o):
                if isinstance(o, dict):
                    return {k: (None if k == "description" else strip(v)) for k, v in o.items()}
                if isinstance(o, list):
                    return [strip(x) for x in o]
                return o
            data = strip(data)
        return httpx.Response(200, json={"data": data}, request=httpx.Request("POST", url))
    post.seen = []
    return post


def _input_models(root):
    """-> {model: {field: (required, default-as-json)}} by importing the generated input_types in a fresh interpreter"""
    import subprocess
    code = r'''
import sys, json
sys.path.insert(0, sys.argv[1])
import importlib, enum, pydantic
m = importlib.import_module("client_pkg.input_types")
out = {}
def js(v):
    if isinstance(v, pydantic.BaseModel):
        return {"__model__": type(v).__name__, **{k: js(x) for k, x in v.model_dump(by_alias=True).items()}}
    if isinstance(v, enum.Enum):
        return {"__enum__": v.name}
    if isinstance(v, (list, tuple)):
        return [js(x) for x in v]
    if isinstance(v, dict):
        return {k: js(x) for k, x in v.items()}
    return v if isinstance(v, (type(None), bool, int, float, str)) else repr(v)
for name, cls in sorted(vars(m).items()):
    if isinstance(cls, type) and issubclass(cls, pydantic.BaseModel) and cls.__module__ == m.__name__:
        fs = {}
        for fname, f in cls.model_fields.items():
            req = f.is_required()
            d = None if req else js(f.get_default(call_default_factory=True))
            fs[f.alias or fname] = [req, d]
        out[name] = fs
print(json.dumps(out, sort_keys=True))
'''
    r = subprocess.run([sys.executable, "-c", code, root], capture_output=True, text=True, timeout=120)
    if r.returncode != 0:
        return {"__error__": r.stderr[-600:]}
    return json.loads(r.stdout)


def _strip_docs(src):
    """module source with doc strings removed (descriptions are not part of the compared client)"""
    import ast
    t = ast.parse(src)
    for n in ast.walk(t):
        if isinstance(n, (ast.ClassDef, ast.FunctionDef, ast.AsyncFunctionDef, ast.Module)) and n.body \
                and isinstance(n.body[0], ast.Expr) and isinstance(n.body[0].value, ast.Constant) and isinstance(n.body[0].value.value, str):
            n.body = n.body[1:] or [ast.Pass()]
    return ast.unparse(t)


def _shape_of_inputs(src):
    """input_types.py without doc strings and without the default values of the fields (those are compared semantically,
    field by field): classes, bases, field names and annotations, validators / methods, model_rebuild calls, imports"""
    import ast
    t = ast.parse(_strip_docs(src))
    for n in ast.walk(t):
        if isinstance(n, ast.ClassDef):
            for st in n.body:
                if isinstance(st, ast.AnnAssign):
                    st.value = None
    return sorted(ast.unparse(st) for st in t.body)


def _norm(fname, src):
    """the order of the class definitions of input_types.py / enums.py follows the order of the schema's definitions
    and is not part of the statement (`identical result models, enums, ...`): compared as a set of statements"""
    import ast
    if src is None or fname not in ("input_types.py", "enums.py", "custom_typing_fields.py", "custom_fields.py"):
        return src
    return sorted(ast.unparse(st) for st in ast.parse(src).body)


def compare_sources(name, sdl, queries, tier):
    """-> list of failure records (scenario = <schema>/<source>, cases = differing aspects)"""
    fails = []
    cases = 0
    roots = []
    try:
        def from_file(root):
            p = os.path.join(root, "schema.graphql")
            open(p, "w").write(sdl)
            return dict(schema_path=p)
        try:
            base_root, base = _generate(from_file, queries)
        except Exception as e:      # noqa: the schema of the corpus is valid; a failure here is a failure of the file source
            return 1, [dict(inputs=dict(scenario=f"{name}/single-file"), cases=["generation-fails"], failed=["single-file-source-generates"],
                            outcome=f"{type(e).__name__}: {str(e)[:300]}")]
        roots.append(base_root)
        # the same path first held another schema (and other operations) that was generated from in this very interpreter
        # and was then rewritten in place: the source is the file as it is now
        cases += 1
        try:
            r0 = tempfile.mkdtemp(prefix="src_", dir=e2e.SCRATCH)
            roots.append(r0)

            def decoy(root):
                p = os.path.join(root, "schema.graphql")
                open(p, "w").write("enum Decoy { ONLY }\ninput DecoyIn { d: Decoy = ONLY }\ntype Query { decoy(i: DecoyIn): Decoy }\n")
                return dict(schema_path=p)
            _generate(decoy, "query D($i: DecoyIn) { decoy(i: $i) }", root=r0)
            shutil.rmtree(os.path.join(r0, "client_pkg"), ignore_errors=True)
            _, files = _generate(from_file, queries, root=r0)
            diff = sorted(f for f in set(files) | set(base) if files.get(f) != base.get(f))
            if diff:
                fails.append(dict(inputs=dict(scenario=f"{name}/file-rewritten-in-place"), cases=[f"file-differs:{f}" for f in diff],
                                  failed=["the-source-is-the-file-as-it-is-now"], outcome=f"{len(diff)} files differ"))
        except Exception as e:      # noqa
            fails.append(dict(inputs=dict(scenario=f"{name}/file-rewritten-in-place"), cases=["generation-fails"],
                              failed=["the-source-is-the-file-as-it-is-now"], outcome=f"{type(e).__name__}: {str(e)[:300]}"))
        base_inputs = _input_models(base_root)
        defs = _definitions(sdl)
        for pname, layout in _partitions(defs, tier):
            cases += 1
            try:
                r, files = _generate(lambda root, _l=layout: dict(schema_path=_write_tree(root, defs, _l)), queries)
                roots.append(r)
                diff = sorted(f for f in set(files) | set(base) if _norm(f, files.get(f)) != _norm(f, base.get(f)))
                if diff:
                    fails.append(dict(inputs=dict(scenario=f"{name}/directory:{pname}"), cases=[f"file-differs:{f}" for f in diff],
                                      failed=["directory-split-yields-the-same-client"], outcome=f"{len(diff)} files differ"))
            except Exception as e:      # noqa
                fails.append(dict(inputs=dict(scenario=f"{name}/directory:{pname}"), cases=["generation-fails"],
                                  failed=["directory-split-yields-the-same-client"], outcome=f"{type(e).__name__}: {str(e)[:300]}"))
        for descriptions in (True, False):
            cases += 1
            scen = f"{name}/introspection:{'with' if descriptions else 'without'}-descriptions"
            try:
                fake = _fake_post(sdl, descriptions)
                verify = not descriptions          # both values of the TLS flag are exercised
                with mock.patch.dict(os.environ, {"PYVC_SCHEMA_TOKEN_v2": "$2y$10$secret-token", "secret": "WRONG"}):
                    r, files = _generate(lambda root: dict(remote_schema_url="http://schema.example/graphql",
                                                           remote_schema_headers={"Authorization": "$PYVC_SCHEMA_TOKEN_v2", "X-Plain": "plain"},
                                                           remote_schema_verify_ssl=verify), queries, patch_post=fake)
                roots.append(r)
                bad = []
                want = dict(url="http://schema.example/graphql", headers={"Authorization": "$2y$10$secret-token", "X-Plain": "plain"}, verify=verify)
                if len(fake.seen) != 1 or {k: fake.seen[0][k] for k in want} != want:
                    bad.append("configured-url-headers-and-tls-flag-are-what-is-sent")
                if "input_types.py" in files and "input_types.py" in base and _shape_of_inputs(files["input_types.py"]) != _shape_of_inputs(base["input_types.py"]):
                    bad.append("input-types-differ-beyond-field-defaults")
                for f in sorted(set(files) | set(base)):
                    if f == "input_types.py":
                        continue
                    a, b = files.get(f), base.get(f)
                    if a is None or b is None or _strip_docs(a) != _strip_docs(b):
                        bad.append(f"module-differs:{f}")
                inputs = _input_models(r)
                if "__error__" in inputs or "__error__" in base_inputs:
                    bad.append("input-types-do-not-import")
                else:
                    for model in sorted(set(inputs) | set(base_inputs)):
                        fa, fb = inputs.get(model, {}), base_inputs.get(model, {})
                        for fld in sorted(set(fa) | set(fb)):
                            if fld not in fa or fld not in fb:
                                bad.append(f"field-missing:{model}.{fld}")
                            elif fa[fld][0] != fb[fld][0]:
                                bad.append(f"required-differs:{model}.{fld}")
                            elif fa[fld][1] != fb[fld][1]:
                                bad.append(f"default-differs:{model}.{fld}")
                for b in bad:       # one record per difference, so that a known finding names exactly what differs
                    fails.append(dict(inputs=dict(scenario=f"{scen}:{b}"), cases=[b], failed=["introspection-yields-the-same-client"],
                                      outcome=b))
            except Exception as e:      # noqa
                fails.append(dict(inputs=dict(scenario=scen), cases=["generation-fails"],
                                  failed=["introspection-yields-the-same-client"], outcome=f"{type(e).__name__}: {str(e)[:300]}"))
    finally:
        for r in roots:
            shutil.rmtree(r, ignore_errors=True)
    return cases, fails


def bounded_sources(tier, seed):
    cases, fails = 0, []
    for name, sdl, queries in CORPUS:
        c, f = compare_sources(name, sdl, queries, tier)
        cases += c
        fails += f
    return dict(function="ariadne_codegen.main:client", name="bounded.schema-sources",
                kind="bounded stand-in (end-to-end, native)",
                domain=f"{len(CORPUS)} schemas (inputs with scalar/enum/list/nested-list/object/nested-object/null defaults, interface, union, "
                       f"custom scalar) x {len(_partitions([0] * 9, tier))} directory partitions (sub-directories, 3 extensions, equal base "
                       "names, ignored files) + introspection with/without descriptions, each compared with the single-file client",
                cases=cases, failed=len(fails), failures=fails)


def witness_introspection_defaults():
    """known-finding witness: the introspection scenarios of the corpus"""
    out = bounded_sources("quick", 0)
    cases = sorted({f["inputs"]["scenario"] for f in out["failures"] if "/introspection" in f["inputs"]["scenario"]})
    return dict(inputs={"scenario": "introspection"}, cases=cases, failed=["introspection-yields-the-same-client"] if cases else [])


if __name__ == "__main__":
    r = bounded_sources(sys.argv[1] if len(sys.argv) > 1 else "quick", 0)
    print(json.dumps(r, indent=1)[:6000])
