"""Run-time base clients: variables conversion, JSON request, (multipart: see c11_multipart), shared by C11, C03, C13.

One contract class instantiated for each of the four bundled clients, so a drift in one copy fails that copy's
obligations."""
import importlib
import z3
from pyvc import val as V
from pyvc import models
from pyvc.val import Obj, SV, MDict
from pyvc.contract import Contract
from pyvc.spec import *   # noqa
from . import lib_fakes as F
from . import lib_values as L

DEP = "ariadne_codegen.client_generators.dependencies."
CLIENTS = [("base_client", "BaseClient"), ("async_base_client", "AsyncBaseClient"),
           ("base_client_open_telemetry", "BaseClientOpenTelemetry"),
           ("async_base_client_open_telemetry", "AsyncBaseClientOpenTelemetry")]
for _m, _k in CLIENTS:
    F.register_otel_functions(importlib.import_module(DEP + _m))


class FakeHttpClient:
    """httpx client stand-in: post(**kwargs) is recorded in the ghost log and answers with an arbitrary response"""

    def _post(I, o, a, k):
        kw = dict(k)
        splat = kw.pop("__splat__", None)
        if a:
            from pyvc.interp import Unsupported
            raise Unsupported("positional arguments to http_client.post")
        if splat is not None:
            m = MDict(V.lower(splat))
            for key, v in kw.items():
                m.t = V.VDict(V.d_set(V.vd(m.t), V.lower(key), V.lower(v)))
            I.p.effect("http_post", m.t)
        else:
            I.p.effect("http_post", V.lower(kw))
        return SV(z3.Const("http_response", V.Val))

    __pyvc_methods__ = {"post": _post}


V.REG.register(FakeHttpClient, [])
URL = z3.Const("self_url", V.Val)


class ClientContract(Contract):
    method = None
    trusted = L.TRUSTED + ["httpx: post(url=, content=/data=/files=, **kwargs) sends exactly these; its result is the response"]

    def __init__(self, module, klass):
        self.module, self.klass = module, klass
        self.mod = importlib.import_module(DEP + module)
        self.target = f"{DEP}{module}:{klass}.{self.method}"
        self.label = self.target

    def self_obj(self, E=None, tracer=False):
        attrs = {"url": SV(URL), "http_client": Obj(FakeHttpClient, {})}
        if self.klass.endswith("OpenTelemetry"):
            attrs["tracer"] = Obj(F.FakeTracer, {}) if tracer else None
            attrs["root_context"] = None
            attrs["root_span_name"] = "GraphQL Operation"
        return Obj(getattr(self.mod, self.klass), attrs)

    def native_self(self):
        import httpx
        self._posts = []

        def handler(request):
            self._posts.append(request)
            return httpx.Response(200, json={"data": {}})
        cls = getattr(self.mod, self.klass)
        if "Async" in self.klass:
            return cls(url="http://localhost/graphql", http_client=httpx.AsyncClient(transport=httpx.MockTransport(handler)))
        return cls(url="http://localhost/graphql", http_client=httpx.Client(transport=httpx.MockTransport(handler)))


class ConvertValue(ClientContract):
    props = ("C11", "C03", "C13", "C18", "C06")      # C18: input models are dumped by alias - the GraphQL name stays the wire name
    method = "_convert_value"

    def setup(self, E):
        return [self.self_obj(E), E.sym("value", L.PYVAL)], {}

    def decreases(self, A):
        return A.value

    def result_term(self, A):
        return L.conv(A.value)

    def ensures(self, A, res):
        if "__path__" in A:
            L.conv_list.apply(A["__path__"], V.vl(A.value))
        return {"models-dumped-by-alias-without-unset/lists-pointwise/else-unchanged": res == L.conv(A.value)}

    def native_args(self, inputs):
        return [inputs["value"]], {}

    def samples(self, tier):
        m = L._build_model({"a": 1, "bC": None})
        return [dict(value=v) for v in (None, 1, "x", [1, m, [m, None]], {"k": m}, m, L.BM.UNSET, [])]


class ConvertDict(ClientContract):
    props = ("C11", "C03", "C13", "C06")
    method = "_convert_dict_to_json_serializable"

    def setup(self, E):
        return [self.self_obj(E), E.sym("dict_", L.VARIABLES)], {}

    def result_term(self, A):
        return V.VDict(L.conv_dict(V.vd(A.dict_)))

    def ensures(self, A, res):
        xs = V.vd(A.dict_)
        r = L.conv_dict.apply(A["__path__"], xs) if "__path__" in A else L.conv_dict(xs)
        return {"unset-dropped/values-converted/keys-and-order-kept": res == V.VDict(r)}

    def native_args(self, inputs):
        return [inputs["dict_"]], {}

    def samples(self, tier):
        m = L._build_model({"a": 1})
        # plain dicts below the top level are passed on as they are (same request from all four clients)
        return [dict(dict_=d) for d in ({}, {"a": 1, "b": L.BM.UNSET, "c": None}, {"m": m, "l": [m, 2], "u": L.BM.UNSET},
                                        {"d": {"k": 1, "n": None}, "x": 2}, {"d": {"inner": {"k": [1, 2]}}, "l": [{"k": 1}]},
                                        {"d": {"m": m, "u": L.BM.UNSET}, "x": 1})]


class ExecuteJson(ClientContract):
    props = ("C11",)
    method = "_execute_json"
    use_at_calls = False

    def setup(self, E):
        kwargs = E.sym("kwargs", DictOf(Str, Any, name="kwargs"))
        E.assume(z3.Implies(has(kwargs.t, "headers"), DictOf(Str, Str, name="hdrs").pred(get(kwargs.t, "headers"))))
        E.assume(z3.And(*[z3.Not(has(kwargs.t, k)) for k in ("query", "operation_name", "variables", "url", "content")]))
        return [self.self_obj(E)], dict(query=E.sym("query", Str), operation_name=E.sym("operation_name", Opt(Str)),
                                        variables=E.sym("variables", JOBJ), __splat__=kwargs)

    def ensures(self, A, res):
        kw = A.kwargs
        merged_headers = V.VDict(models.d_update(V.vd(dct(**{"Content-Type": "application/json"})), V.vd(get(kw, "headers", {}))))
        body = Obj(models.JsonText, {"value": {"query": SV(A.query), "operationName": SV(A.operation_name),
                                               "variables": SV(A.variables)}})
        expected_kwargs = V.VDict(V.d_set(V.d_set(V.d_set(V.vd(kw), S("headers"), merged_headers), S("url"), URL),
                                          S("content"), V.lower(body)))
        posts = [p for k, p in A["__effects__"] if k == "http_post"]
        sent = posts[0] if posts else V.VNone
        same = z3.And(*[get(sent, k) == get(expected_kwargs, k) for k in ("url", "content", "headers")])
        other = z3.Const("other_key", V.Val)
        return {"exactly-one-post": z3.BoolVal(len(posts) == 1),
                "body-carries-exactly-query-operationName-variables/json-content-type-merged-caller-wins": same,
                # `other` is a free constant: the clause is proved for an arbitrary other key
                "other-kwargs-passed-through": z3.Implies(
                    z3.And(other != S("headers"), other != S("url"), other != S("content")),
                    z3.And(has(sent, other) == has(kw, other), get(sent, other) == get(kw, other))),
                "returns-the-response": res == z3.Const("http_response", V.Val)}


# ------------------------------------------------------------------------------------------ multipart request
class ExecuteMultipart(ClientContract):
    """statement: `a multipart form obeying the GraphQL multipart request specification`: the form carries `operations`
    (JSON of exactly query, operationName, variables) and `map` (JSON of the path map), the files are the parts"""
    props = ("C11",)
    method = "_execute_multipart"
    use_at_calls = False

    def setup(self, E):
        kwargs = E.sym("kwargs", DictOf(Str, Any, name="kwargs_mp"))
        E.assume(z3.And(*[z3.Not(has(kwargs.t, k)) for k in ("query", "operation_name", "variables", "files", "files_map", "url", "data")]))
        return [self.self_obj(E)], dict(query=E.sym("query", Str), operation_name=E.sym("operation_name", Opt(Str)),
                                        variables=E.sym("variables", JOBJ), files=E.sym("files", DictOf(Str, Any, name="files_mp")),
                                        files_map=E.sym("files_map", DictOf(Str, ListOf(Str), name="files_map_mp")), __splat__=kwargs)

    def ensures(self, A, res):
        kw = A.kwargs
        ops = V.lower(Obj(models.JsonText, {"value": {"query": SV(A.query), "operationName": SV(A.operation_name),
                                                      "variables": SV(A.variables)}}))
        fmap = V.lower(Obj(models.JsonText, {"value": SV(A.files_map)}))
        posts = [p for k, p in A["__effects__"] if k == "http_post"]
        sent = posts[0] if posts else V.VNone
        data = get(sent, "data")
        other = z3.Const("other_key", V.Val)
        return {"exactly-one-post": z3.BoolVal(len(posts) == 1),
                "form-carries-operations-and-map/files-are-the-parts": z3.And(
                    get(sent, "url") == URL, get(data, "operations") == ops, get(data, "map") == fmap,
                    get(sent, "files") == A.files),
                "form-has-no-other-field": z3.Implies(z3.And(other != S("operations"), other != S("map")), z3.Not(has(data, other))),
                "other-kwargs-passed-through": z3.Implies(
                    z3.And(other != S("files"), other != S("url"), other != S("data")),
                    z3.And(has(sent, other) == has(kw, other), get(sent, other) == get(kw, other))),
                "returns-the-response": res == z3.Const("http_response", V.Val)}


# ------------------------------------------------------------------------------------------ dispatchers
# The entry points hand the work to the senders proved above. Each dispatcher is proved against stand-ins of its callees
# that record the call (name, keyword arguments) and answer with an arbitrary value: the dispatcher must call the right
# callee exactly once, with the prescribed arguments, and return its answer unchanged.
def _stub(self_, name, result):
    from pyvc.interp import ModelMethod, Unsupported
    from pyvc.val import MDict

    def call(I, o, a, k):
        kw = dict(k)
        splat = kw.pop("__splat__", None)
        m = MDict(V.lower(splat)) if splat is not None else MDict(V.lower({}))
        for key, v in kw.items():
            m.t = V.VDict(V.d_set(V.vd(m.t), V.lower(key), V.lower(v)))
        I.p.effect("call", (name, [V.lower(x) for x in a], m.t))
        return result
    self_.attrs[name] = ModelMethod(self_, call, name)


def _calls(A):
    return [p for k, p in A["__effects__"] if k == "call"]


PV, FILES, FMAP = (z3.Const(n, V.Val) for n in ("processed_variables", "files_found", "files_map_found"))
RESP = {n: z3.Const("response_of" + n, V.Val) for n in ("_execute_json", "_execute_multipart", "_execute_json_with_telemetry",
                                                         "_execute_multipart_with_telemetry", "_execute", "_execute_with_telemetry")}


def _passes(sent, kw, named, extra_ignored=()):
    """the recorded keyword arguments are exactly `named` plus the caller's **kwargs"""
    other = z3.Const("other_key", V.Val)
    names = list(named) + list(extra_ignored)
    return z3.And(*[get(sent, k) == v for k, v in named.items()],
                  z3.Implies(z3.And(*[other != S(k) for k in names]),
                             z3.And(has(sent, other) == has(kw, other), get(sent, other) == get(kw, other))))


class Execute(ClientContract):
    """statement: `without file uploads it is JSON ..., with Upload objects anywhere in the variables it is a multipart
    form`: variables are processed once; multipart iff files were found, JSON otherwise; the response is returned"""
    props = ("C11",)
    use_at_calls = False
    frame_args = False
    telemetry = False

    def __init__(self, module, klass, method):
        self.method = method
        super().__init__(module, klass)
        self.telemetry = method.endswith("_with_telemetry")

    def setup(self, E):
        self_ = self.self_obj(E, tracer=True)
        suffix = "_with_telemetry" if self.telemetry else ""
        _stub(self_, "_process_variables", (SV(PV), SV(FILES), SV(FMAP)))
        for n in ("_execute_json", "_execute_multipart"):
            _stub(self_, n + suffix, SV(RESP[n + suffix]))
        kwargs = E.sym("kwargs", DictOf(Str, Any, name="kwargs_ex"))
        E.assume(z3.And(*[z3.Not(has(kwargs.t, k)) for k in ("query", "operation_name", "variables", "files", "files_map", "root_span")]))
        return [self_], dict(query=E.sym("query", Str), operation_name=E.sym("operation_name", Opt(Str)),
                             variables=E.sym("variables", Opt(L.VARIABLES)), __splat__=kwargs)

    def ensures(self, A, res):
        suffix = "_with_telemetry" if self.telemetry else ""
        calls = _calls(A)
        kw = A.kwargs
        out = {"variables-processed-once-then-exactly-one-request": z3.BoolVal(
            len(calls) == 2 and calls[0][0] == "_process_variables" and calls[1][0] in ("_execute_json" + suffix, "_execute_multipart" + suffix))}
        if not z3.is_true(out["variables-processed-once-then-exactly-one-request"]):
            return out
        (_, pargs, pkw), (name, args, sent) = calls
        out["processes-the-given-variables"] = z3.And(z3.BoolVal(len(pargs) == 1), *( [pargs[0] == A.variables] if len(pargs) == 1 else []))
        multipart = z3.And(truthy(FILES), truthy(FMAP))
        named = {"query": A.query, "operation_name": A.operation_name, "variables": PV}
        if name.startswith("_execute_multipart"):
            named.update(files=FILES, files_map=FMAP)
            out["multipart-iff-files-were-found"] = multipart
        else:
            out["multipart-iff-files-were-found"] = z3.Not(multipart)
        out["request-carries-query-operationName-processed-variables-and-kwargs"] = z3.And(
            z3.BoolVal(len(args) == 0), _passes(sent, kw, named, extra_ignored=("root_span",)))
        out["returns-the-response"] = res == RESP[name]
        return out

    def on_raise(self, A, exc_cls, exc):
        return {"adds-no-exception-of-its-own": z3.BoolVal(False)}

    def replay_custom(self, inputs):
        return dict(inputs={k: str(v)[:200] for k, v in inputs.items()}, failed=[], undetermined=["dispatcher proved against stand-ins"],
                    pre_ok=True, outcome=None, error=None)


class TelemetryTwin(ClientContract):
    """`_execute_json_with_telemetry` / `_execute_multipart_with_telemetry`: the instrumented twin sends exactly the request
    of the plain sender (same arguments, response returned)"""
    props = ("C11",)
    use_at_calls = False
    frame_args = False

    def __init__(self, module, klass, method):
        self.method = method
        self.plain = method[: -len("_with_telemetry")]
        super().__init__(module, klass)

    def setup(self, E):
        self_ = self.self_obj(E, tracer=True)
        _stub(self_, self.plain, SV(RESP[self.plain]))
        kwargs = E.sym("kwargs", DictOf(Str, Any, name="kwargs_tw"))
        E.assume(z3.And(*[z3.Not(has(kwargs.t, k)) for k in ("query", "operation_name", "variables", "files", "files_map", "root_span")]))
        kw = dict(root_span=Obj(F.FakeSpan, {}), query=E.sym("query", Str), operation_name=E.sym("operation_name", Opt(Str)),
                  variables=E.sym("variables", JOBJ), __splat__=kwargs)
        if "multipart" in self.method:
            kw.update(files=E.sym("files", DictOf(Str, Any, name="files_tw")),
                      files_map=E.sym("files_map", DictOf(Str, ListOf(Str), name="files_map_tw")))
        return [self_], kw

    def ensures(self, A, res):
        calls = _calls(A)
        out = {"exactly-one-request-through-the-plain-sender": z3.BoolVal(len(calls) == 1 and calls[0][0] == self.plain and len(calls[0][1]) == 0)}
        if z3.is_true(out["exactly-one-request-through-the-plain-sender"]):
            named = {"query": A.query, "operation_name": A.operation_name, "variables": A.variables}
            if "multipart" in self.method:
                named.update(files=A.files, files_map=A.files_map)
            out["same-arguments"] = _passes(calls[0][2], A.kwargs, named)
            out["returns-the-response"] = res == RESP[self.plain]
        return out

    def on_raise(self, A, exc_cls, exc):
        return {"adds-no-exception-of-its-own": z3.BoolVal(False)}

    replay_custom = Execute.replay_custom


class ExecuteDispatch(ClientContract):
    """OpenTelemetry clients: `execute` hands the call to `_execute_with_telemetry` iff a tracer is configured, else to
    `_execute`, with the same arguments, and returns its response (`tracer present or not ... identical requests`)"""
    props = ("C11",)
    method = "execute"
    use_at_calls = False
    frame_args = False

    def setup(self, E):
        tracer = E.fork("tracer")
        E.p.tracer_on = tracer
        self_ = self.self_obj(E, tracer=tracer)
        for n in ("_execute", "_execute_with_telemetry"):
            _stub(self_, n, SV(RESP[n]))
        kwargs = E.sym("kwargs", DictOf(Str, Any, name="kwargs_d"))
        E.assume(z3.And(*[z3.Not(has(kwargs.t, k)) for k in ("query", "operation_name", "variables")]))
        return [self_], dict(query=E.sym("query", Str), operation_name=E.sym("operation_name", Opt(Str)),
                             variables=E.sym("variables", Opt(L.VARIABLES)), __splat__=kwargs)

    def ensures(self, A, res):
        calls = _calls(A)
        want = "_execute_with_telemetry" if getattr(A["__path__"], "tracer_on", False) else "_execute"
        out = {"instrumented-twin-iff-tracer/exactly-one-call": z3.BoolVal(len(calls) == 1 and calls[0][0] == want and len(calls[0][1]) == 0)}
        if z3.is_true(out["instrumented-twin-iff-tracer/exactly-one-call"]):
            out["same-arguments"] = _passes(calls[0][2], A.kwargs, {"query": A.query, "operation_name": A.operation_name, "variables": A.variables})
            out["returns-the-response"] = res == RESP[want]
        return out

    def on_raise(self, A, exc_cls, exc):
        return {"adds-no-exception-of-its-own": z3.BoolVal(False)}

    replay_custom = Execute.replay_custom


class ProcessVariables(ClientContract):
    """`_process_variables`: nothing to do for absent/empty variables; otherwise the files are separated from the
    converted variables (UNSET dropped, models dumped) and the triple of `_get_files_from_variables` is returned"""
    props = ("C11", "C03", "C06")
    method = "_process_variables"
    use_at_calls = False
    frame_args = False

    def setup(self, E):
        self_ = self.self_obj(E)
        _stub(self_, "_get_files_from_variables", (SV(PV), SV(FILES), SV(FMAP)))
        return [self_, E.sym("variables", Opt(L.VARIABLES))], {}

    def ensures(self, A, res):
        calls = _calls(A)
        v = A.variables
        empty = tup(dct(), dct(), dct())
        if not calls:
            return {"no-variables-no-files": z3.And(z3.Not(truthy(v)), res == empty)}
        ok = len(calls) == 1 and calls[0][0] == "_get_files_from_variables" and len(calls[0][1]) == 1
        out = {"files-separated-once": z3.BoolVal(ok)}
        if ok:
            out["separates-the-converted-variables"] = z3.And(truthy(v), calls[0][1][0] == V.VDict(L.conv_dict(V.vd(v))))
            out["returns-variables-files-map"] = res == tup(SV(PV), SV(FILES), SV(FMAP))
        return out

    def on_raise(self, A, exc_cls, exc):
        return {"does-not-raise": z3.BoolVal(False)}

    replay_custom = Execute.replay_custom


def all_clients(cls):
    return [cls(m, k) for m, k in CLIENTS]


OTEL_CLIENTS = [c for c in CLIENTS if c[1].endswith("OpenTelemetry")]
PLAIN_CLIENTS = [c for c in CLIENTS if not c[1].endswith("OpenTelemetry")]
DISPATCH = ([Execute(m, k, "execute") for m, k in PLAIN_CLIENTS]
            + [Execute(m, k, meth) for m, k in OTEL_CLIENTS for meth in ("_execute", "_execute_with_telemetry")]
            + [TelemetryTwin(m, k, meth) for m, k in OTEL_CLIENTS for meth in ("_execute_json_with_telemetry", "_execute_multipart_with_telemetry")]
            + [ExecuteDispatch(m, k) for m, k in OTEL_CLIENTS])
CONTRACTS = (all_clients(ConvertValue) + all_clients(ConvertDict) + all_clients(ExecuteJson) + all_clients(ExecuteMultipart)
             + all_clients(ProcessVariables) + DISPATCH)
