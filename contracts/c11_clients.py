"""Run-time base clients: variables conversion, JSON request, (multipart: see c11_multipart), shared by C11, C03, C13.

One contract class instantiated for each of the four bundled clients, so a drift in one copy fails that copy's
obligations."""
import importlib
import z3
from pyvc import val as V
from pyvc import models
from pyvc.val import Obj, SV, MDict
from pyvc.contract import Contract
from pyvc.spec import *   # noqa
from . import lib_fakes as F
from . import lib_values as L

DEP = "ariadne_codegen.client_generators.dependencies."
CLIENTS = [("base_client", "BaseClient"), ("async_base_client", "AsyncBaseClient"),
           ("base_client_open_telemetry", "BaseClientOpenTelemetry"),
           ("async_base_client_open_telemetry", "AsyncBaseClientOpenTelemetry")]
for _m, _k in CLIENTS:
    F.register_otel_functions(importlib.import_module(DEP + _m))


class FakeHttpClient:
    """httpx client stand-in: post(**kwargs) is recorded in the ghost log and answers with an arbitrary response"""

    def _post(I, o, a, k):
        kw = dict(k)
        splat = kw.pop("__splat__", None)
        if a:
            from pyvc.interp import Unsupported
            raise Unsupported("positional arguments to http_client.post")
        if splat is not None:
            m = MDict(V.lower(splat))
            for key, v in kw.items():
                m.t = V.VDict(V.d_set(V.vd(m.t), V.lower(key), V.lower(v)))
            I.p.effect("http_post", m.t)
        else:
            I.p.effect("http_post", V.lower(kw))
        return SV(z3.Const("http_response", V.Val))

    __pyvc_methods__ = {"post": _post}


V.REG.register(FakeHttpClient, [])
URL = z3.Const("self_url", V.Val)


class ClientContract(Contract):
    method = None
    trusted = L.TRUSTED + ["httpx: post(url=, content=/data=/files=, **kwargs) sends exactly these; its result is the response"]

    def __init__(self, module, klass):
        self.module, self.klass = module, klass
        self.mod = importlib.import_module(DEP + module)
        self.target = f"{DEP}{module}:{klass}.{self.method}"
        self.label = self.target

    def self_obj(self, E=None, tracer=False):
        attrs = {"url": SV(URL), "http_client": Obj(FakeHttpClient, {})}
        if self.klass.endswith("OpenTelemetry"):
            attrs["tracer"] = Obj(F.FakeTracer, {}) if tracer else None
            attrs["root_context"] = None
            attrs["root_span_name"] = "GraphQL Operation"
        return Obj(getattr(self.mod, self.klass), attrs)

    def native_self(self):
        import httpx
        self._posts = []

        def handler(request):
            self._posts.append(request)
            return httpx.Response(200, json={"data": {}})
        cls = getattr(self.mod, self.klass)
        if "Async" in self.klass:
            return cls(url="http://localhost/graphql", http_client=httpx.AsyncClient(transport=httpx.MockTransport(handler)))
        return cls(url="http://localhost/graphql", http_client=httpx.Client(transport=httpx.MockTransport(handler)))


class ConvertValue(ClientContract):
    props = ("C11", "C03", "C13")
    method = "_convert_value"

    def setup(self, E):
        return [self.self_obj(E), E.sym("value", L.PYVAL)], {}

    def decreases(self, A):
        return A.value

    def result_term(self, A):
        return L.conv(A.value)

    def ensures(self, A, res):
        if "__path__" in A:
            L.conv_list.apply(A["__path__"], V.vl(A.value))
        return {"models-dumped-by-alias-without-unset/lists-pointwise/else-unchanged": res == L.conv(A.value)}

    def native_args(self, inputs):
        return [inputs["value"]], {}

    def samples(self, tier):
        m = L._build_model({"a": 1, "bC": None})
        return [dict(value=v) for v in (None, 1, "x", [1, m, [m, None]], {"k": m}, m, L.BM.UNSET, [])]


class ConvertDict(ClientContract):
    props = ("C11", "C03", "C13")
    method = "_convert_dict_to_json_serializable"

    def setup(self, E):
        return [self.self_obj(E), E.sym("dict_", L.VARIABLES)], {}

    def result_term(self, A):
        return V.VDict(L.conv_dict(V.vd(A.dict_)))

    def ensures(self, A, res):
        xs = V.vd(A.dict_)
        r = L.conv_dict.apply(A["__path__"], xs) if "__path__" in A else L.conv_dict(xs)
        return {"unset-dropped/values-converted/keys-and-order-kept": res == V.VDict(r)}

    def native_args(self, inputs):
        return [inputs["dict_"]], {}

    def samples(self, tier):
        m = L._build_model({"a": 1})
        return [dict(dict_=d) for d in ({}, {"a": 1, "b": L.BM.UNSET, "c": None}, {"m": m, "l": [m, 2], "u": L.BM.UNSET})]


class ExecuteJson(ClientContract):
    props = ("C11",)
    method = "_execute_json"
    use_at_calls = False

    def setup(self, E):
        kwargs = E.sym("kwargs", DictOf(Str, Any, name="kwargs"))
        E.assume(z3.Implies(has(kwargs.t, "headers"), DictOf(Str, Str, name="hdrs").pred(get(kwargs.t, "headers"))))
        E.assume(z3.And(*[z3.Not(has(kwargs.t, k)) for k in ("query", "operation_name", "variables", "url", "content")]))
        return [self.self_obj(E)], dict(query=E.sym("query", Str), operation_name=E.sym("operation_name", Opt(Str)),
                                        variables=E.sym("variables", JOBJ), __splat__=kwargs)

    def ensures(self, A, res):
        kw = A.kwargs
        merged_headers = V.VDict(models.d_update(V.vd(dct(**{"Content-Type": "application/json"})), V.vd(get(kw, "headers", {}))))
        body = Obj(models.JsonText, {"value": {"query": SV(A.query), "operationName": SV(A.operation_name),
                                               "variables": SV(A.variables)}})
        expected_kwargs = V.VDict(V.d_set(V.d_set(V.d_set(V.vd(kw), S("headers"), merged_headers), S("url"), URL),
                                          S("content"), V.lower(body)))
        posts = [p for k, p in A["__effects__"] if k == "http_post"]
        sent = posts[0] if posts else V.VNone
        same = z3.And(*[get(sent, k) == get(expected_kwargs, k) for k in ("url", "content", "headers")])
        other = z3.Const("other_key", V.Val)
        return {"exactly-one-post": z3.BoolVal(len(posts) == 1),
                "body-carries-exactly-query-operationName-variables/json-content-type-merged-caller-wins": same,
                # `other` is a free constant: the clause is proved for an arbitrary other key
                "other-kwargs-passed-through": z3.Implies(
                    z3.And(other != S("headers"), other != S("url"), other != S("content")),
                    z3.And(has(sent, other) == has(kw, other), get(sent, other) == get(kw, other))),
                "returns-the-response": res == z3.Const("http_response", V.Val)}


def all_clients(cls):
    return [cls(m, k) for m, k in CLIENTS]


CONTRACTS = all_clients(ConvertValue) + all_clients(ConvertDict) + all_clients(ExecuteJson)
