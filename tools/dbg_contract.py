#!/usr/bin/env python3
"""debugging aid: verify one contract in-process, print every obligation with its status, dump unknown/sat queries as SMT-LIB
usage: DBG_PROP=C08 .venv/bin/python tools/dbg_contract.py contracts.c01_subtype GetFragmentsOnSubtype [timeout_ms]   (DBG_PROP: use the callee contracts of that property)"""
import importlib, sys, os, z3
sys.path.insert(0, os.path.dirname(os.path.dirname(os.path.abspath(__file__))))
from pyvc import interp, contract as C
from pyvc.source import SourceIndex
modname, clsname = sys.argv[1], sys.argv[2]
tmo = int(sys.argv[3]) if len(sys.argv) > 3 else 10000
from contracts import registry
PID = os.environ.get("DBG_PROP")
for m in (registry.PROPERTIES[PID]["modules"] if PID else []):      # same import order as pyvc.check (class ids depend on it)
    importlib.import_module(m)
mod = importlib.import_module(modname)
cs = [c for c in mod.CONTRACTS if type(c).__name__ == clsname or getattr(c, "label", "") == clsname]
orig = interp.Path.oblige
N = [0]
def oblige(self, name, formula, kind="post", detail="", assume_after=True):
    ob = orig(self, name, formula, kind, detail, False)
    if ob.status != "unsat":
        N[0] += 1
        fn = f"/tmp/dbg_{N[0]}.smt2"
        s = self.solver
        s.push(); s.add(z3.Not(z3.simplify(formula) if not isinstance(formula, bool) else z3.BoolVal(formula)))
        open(fn, "w").write(s.to_smt2()); s.pop()
        print(f"  !! {ob.status} {name} path={ob.path_id} -> {fn} reason={getattr(ob,'reason',None)} goal={str(z3.simplify(formula))[:160] if not isinstance(formula,bool) else formula}".replace("\n"," "))
    if assume_after and not isinstance(formula, bool):
        self.assume(z3.simplify(formula))
    return ob
interp.Path.oblige = oblige
allc = list(mod.CONTRACTS)
for pid, info in registry.PROPERTIES.items():
    for m in (info["modules"] if pid == PID else []):
        for c in importlib.import_module(m).CONTRACTS:
            if c not in allc: allc.append(c)
for c in cs:
    r = C.verify(c, SourceIndex(), contracts=allc, timeout_ms=tmo)
    print(c.target, "paths", r.paths, "post_paths", r.post_paths, "error", r.error, "unsupported", r.unsupported[:3])
    for n, d in r.obligations.items():
        print("  ", d["status"], n, "queries", d["queries"], round(d["time"], 2), d["detail"][:200])
