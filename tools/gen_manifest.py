#!/usr/bin/env python3
"""Regenerate MANIFEST.json from contracts/registry.py (claimed properties) + not_applicable.json."""
import json, os, sys
ROOT = os.path.dirname(os.path.dirname(os.path.abspath(__file__)))
sys.path.insert(0, ROOT)
import ast
src = open(os.path.join(ROOT, "contracts", "registry.py")).read()
tree = ast.parse(src)
# registry may import heavy things: evaluate only the MANIFEST_INFO / PROPERTY ids statically
claimed = json.load(open(os.path.join(ROOT, "contracts", "manifest_info.json")))
props = [json.loads(l) for l in open(os.path.join(ROOT, "properties.jsonl"))]
checks, na = [], []
for p in props:
    pid = p["id"]
    info = claimed.get(pid)
    if info is None or info.get("not_applicable"):
        na.append(dict(property_id=pid, reason=(info or {}).get("not_applicable", "not yet brought under contract in this build (see DESIGN.md section 10)")))
        continue
    checks.append(dict(
        property_id=pid,
        quick_cmd=f".venv/bin/python -m pyvc.check {pid} --tier quick",
        thorough_cmd=f".venv/bin/python -m pyvc.check {pid} --tier thorough",
        evidence_file=f"evidence/{pid}.json",
        replay_cmd_template=f".venv/bin/python -m pyvc.check {pid} --replay {{path}}",
        engine="pyvc",
        level_claimed=dict(category="proof", text=info["level_text"], design_ref=info.get("design_ref", "DESIGN.md section 5")),
        level_note=info["level_note"],
        technique=info.get("technique", "contract-based deductive verification: sidecar contracts on the real functions, VCs generated from the repository's Python AST by symbolic execution, discharged by z3; counter-models replayed on the real code"),
    ))
manifest = dict(
    version=1,
    setup_cmd="bash tools/setup.sh",
    hooks=dict(guard="ARIADNE_CODEGEN_VERIF",
               enable="no source hooks: contracts are sidecar files under /verif/contracts; the verifier re-reads /repo's working tree on every run",
               baseline_off_cmd="python3 tools/run_baseline.py /repo", source_commits=[], add_only=True),
    engines=[dict(name="pyvc", path="pyvc/", serves_properties=[c["property_id"] for c in checks],
                  kind_free_text="own VC generator: symbolic execution of the real Python AST against sidecar contracts (requires/ensures/raises/frames, map-extensionality and fold rules for loops), obligations discharged by z3 5.1 (cvc5 cross-solve in the thorough tier), counter-models concretised and replayed on the real functions")],
    checks=checks,
    not_applicable=na,
    notes="exit codes: 0 held, 1 violation (VIOLATION line), 2 undecided, 3 checker failure. Known findings: known_findings.json.",
)
json.dump(manifest, open(os.path.join(ROOT, "MANIFEST.json"), "w"), indent=1)
print("checks:", [c["property_id"] for c in checks], "not_applicable:", len(na))
