#!/bin/bash
# rebase kept seeded changes that stopped applying after a fix commit in /repo: 3-way merge, then fuzz; the result is written to
# /tmp/seeded_rb/<prop>/<id>/ (patch.diff, demo.py, meta.json) for tools/validate_seeds.py; conflicts are left in /tmp/rbm/<id>/
wt=/tmp/rb_wt; rm -rf /tmp/seeded_rb /tmp/rbm; git -C /repo worktree remove --force $wt >/dev/null 2>&1; git -C /repo worktree add -q --detach $wt HEAD
for d in /verif/seeded/*/ /verif/seeded_harmless/*/; do
  git -C /repo apply --check $d/patch.diff 2>/dev/null && continue
  s=$(basename $d); p=${s%%_*}
  git -C $wt reset -q --hard; git -C $wt clean -fdq
  ok=""
  if git -C $wt apply --3way $d/patch.diff >/dev/null 2>&1 && ! git -C $wt diff --name-only --diff-filter=U | grep -q .; then ok=3way
  else
    mkdir -p /tmp/rbm/$s
    for f in $(git -C $wt diff --name-only --diff-filter=U); do cp $wt/$f /tmp/rbm/$s/$(basename $f).conflict; done
    git -C $wt reset -q --hard; git -C $wt clean -fdq
    if (cd $wt && patch -p1 -F3 --no-backup-if-mismatch -s < $d/patch.diff >/dev/null 2>&1); then ok=fuzz; fi
    find $wt -name '*.rej' -o -name '*.orig' | xargs -r rm
  fi
  if [ -n "$ok" ]; then
    mkdir -p /tmp/seeded_rb/$p/$s; git -C $wt diff HEAD > /tmp/seeded_rb/$p/$s/patch.diff; cp $d/demo.py $d/meta.json /tmp/seeded_rb/$p/$s/; echo "$ok $s"
  else echo "FAIL $s (conflict files in /tmp/rbm/$s)"; fi
done
git -C $wt reset -q --hard; git -C /repo worktree remove --force $wt
