#!/bin/bash
# run every registered quick (or thorough) check; print a one-line summary per property
cd "$(dirname "$0")/.."
tier=${1:-quick}
for i in 01 02 03 04 05 06 07 08 09 10 11 12 13 14 15 16 17 18 19; do
  s=$(date +%s)
  out=$(.venv/bin/python -m pyvc.check C$i --tier $tier 2>&1); rc=$?
  e=$(date +%s)
  echo "C$i rc=$rc $((e-s))s $(echo "$out" | grep -c '^KNOWN-FINDING') known | $(echo "$out" | tail -1 | cut -c1-150)"
done
