#!/usr/bin/env python3
"""Like run_seeds.py but in N scratch worktrees of /repo's HEAD (outside /repo and /verif, removed afterwards): each kept
seeded change is applied to a worktree and the quick check of its property is run against that tree
(PYVC_REPO / PYTHONPATH select the tree the verifier reads).  Merges the verdicts into seeded/RESULTS.json.
usage: run_seeds_parallel.py [-j N] [ids...]"""
import json, os, subprocess, sys, time
from concurrent.futures import ThreadPoolExecutor
ROOT = os.path.dirname(os.path.dirname(os.path.abspath(__file__)))
args = sys.argv[1:]
N = 4
if args[:1] == ["-j"]:
    N = int(args[1]); args = args[2:]
HARMLESS = "--harmless" in args
if HARMLESS:
    args.remove("--harmless")
SEEDDIR = "seeded_harmless" if HARMLESS else "seeded"
RES = os.environ.get("RS_RESULTS") or os.path.join(ROOT, SEEDDIR, "RESULTS.json")
res = json.load(open(RES)) if os.path.exists(RES) else {}
ids = [s for s in sorted(os.listdir(os.path.join(ROOT, SEEDDIR))) if os.path.isfile(os.path.join(ROOT, SEEDDIR, s, "patch.diff")) and (not args or s in args)]
wts = [os.environ.get("RS_PREFIX", "/tmp/rs_wt") + str(i) for i in range(N)]
for wt in wts:
    subprocess.run(["git", "-C", "/repo", "worktree", "remove", "--force", wt], capture_output=True)
    subprocess.run(["git", "-C", "/repo", "worktree", "add", "-q", "--detach", wt, "HEAD"], check=True)
import queue
free = queue.Queue()
for wt in wts:
    free.put(wt)


def one(sid):
    wt = free.get()
    try:
        pid = sid.split("_")[0]
        patch = os.path.join(ROOT, SEEDDIR, sid, "patch.diff")
        subprocess.run(["git", "-C", wt, "checkout", "-q", "--", "."]); subprocess.run(["git", "-C", wt, "clean", "-fdq"])
        if subprocess.run(["git", "-C", wt, "apply", patch], capture_output=True).returncode != 0:
            return sid, dict(property=pid, applied=False)
        t0 = time.time()
        env = dict(os.environ, PYVC_REPO=wt, PYTHONPATH=wt, PYTHONDONTWRITEBYTECODE="1", PYVC_OUT=os.path.join("/tmp/rs_out", sid))
        r = subprocess.run([os.path.join(ROOT, ".venv/bin/python"), "-m", "pyvc.check", pid, "--tier", "quick"], cwd=ROOT, capture_output=True, text=True, timeout=3600, env=env)
        out = r.stdout
        viol = [l for l in out.splitlines() if l.startswith("VIOLATION")]
        obls = [l.split("obligation failed: ")[1] for l in out.splitlines() if l.startswith("obligation failed: ")]
        return sid, dict(property=pid, applied=True, exit=r.returncode, violation_lines=len(viol), failed_obligations=sorted(set(obls))[:6],
                         replayed=any("no-failing-input-found" not in l for l in viol), undecided=out.count("UNDECIDED:"), seconds=round(time.time() - t0, 1),
                         failure=[l for l in out.splitlines() if l.startswith("CHECKER-FAILURE")][:2])
    finally:
        subprocess.run(["git", "-C", wt, "checkout", "-q", "--", "."]); subprocess.run(["git", "-C", wt, "clean", "-fdq"])
        free.put(wt)


try:
    with ThreadPoolExecutor(N) as ex:
        for sid, r in ex.map(one, ids):
            res[sid] = r
            print(sid, "exit", r.get("exit"), "violations", r.get("violation_lines"), "undecided", r.get("undecided"), "" if r.get("applied") else "PATCH DOES NOT APPLY", flush=True)
finally:
    for wt in wts:
        subprocess.run(["git", "-C", "/repo", "worktree", "remove", "--force", wt], capture_output=True)
json.dump(res, open(RES, "w"), indent=1, sort_keys=True)
sel = {k: v for k, v in res.items() if k in ids}
if HARMLESS:
    print(f"no alarm on {sum(1 for v in sel.values() if v.get('exit') in (0, 2))} of {len(sel)} harmless changes "
          f"(exit 0: {sum(1 for v in sel.values() if v.get('exit') == 0)}, undecided exit 2: {sum(1 for v in sel.values() if v.get('exit') == 2)})")
else:
    print(f"detected {sum(1 for v in sel.values() if v.get('exit') == 1)} of {len(sel)}")
