#!/bin/bash
# try_seed.sh <seed id> [property]  - apply one seeded change in a scratch worktree, run the quick check of its property, clean up
set -u
id=$1; prop=${2:-${id%%_*}}
dir=/verif/seeded/$id; [ -d "$dir" ] || dir=/verif/seeded_harmless/$id
wt=/tmp/try_wt_$id; out=/tmp/try_out_$id
git -C /repo worktree remove --force $wt >/dev/null 2>&1
git -C /repo worktree add --detach $wt HEAD >/dev/null 2>&1 || exit 3
git -C $wt apply $dir/patch.diff || { echo "PATCH DOES NOT APPLY"; git -C /repo worktree remove --force $wt; exit 3; }
mkdir -p $out
cd /verif && PYVC_REPO=$wt PYTHONPATH=$wt PYVC_OUT=$out timeout 3000 .venv/bin/python -m pyvc.check $prop --tier quick 2>&1 | grep -v "^  \|^note\|^obligation\|^KNOWN" | sed "s#replay=$out/replays/$prop/#replay=#" | cut -c1-${COLS:-300} | tail -${LINES_:-12}
echo "exit=${PIPESTATUS[0]}"
git -C /repo worktree remove --force $wt; rm -rf $out
