#!/usr/bin/env python3
"""Validate seeded defects delivered by sub-agents: in a scratch worktree, demo passes unchanged, fails with the
patch, the pinned suite still passes with the patch.  Validated ones are copied to /verif/seeded/<id>/."""
import json, os, shutil, subprocess, sys, glob
SRC = sys.argv[1] if len(sys.argv) > 1 else "/tmp/seeded_out"
WT = os.environ.get("VAL_WT", "/tmp/val_wt")
subprocess.run(["git", "-C", "/repo", "worktree", "remove", "--force", WT], capture_output=True)
subprocess.run(["git", "-C", "/repo", "worktree", "add", "-q", WT, "HEAD"], check=True)
env = dict(os.environ, PYTHONPATH=WT, PYTHONDONTWRITEBYTECODE="1")
def demo(d):
    try:
        r = subprocess.run(["/venv/bin/python", os.path.join(d, "demo.py")], cwd=WT, env=env, capture_output=True, text=True, timeout=900)
        return r.returncode, (r.stdout + r.stderr)[-600:]
    except subprocess.TimeoutExpired:
        return -9, "timeout"
results = {}
only = sys.argv[2:] 
for d in sorted(glob.glob(os.path.join(SRC, "C*", "C*_*"))):
    sid = os.path.basename(d)
    harmless = "_H" in sid
    if only and sid not in only: continue
    patch = os.path.join(d, "patch.diff")
    if not os.path.exists(patch) or not os.path.exists(os.path.join(d, "demo.py")):
        results[sid] = "incomplete"; continue
    subprocess.run(["git", "-C", WT, "checkout", "--", "."]); subprocess.run(["git", "-C", WT, "clean", "-fdq"])
    if subprocess.run(["git", "-C", WT, "apply", "--check", patch], capture_output=True).returncode != 0:
        results[sid] = "patch does not apply"; print(sid, results[sid], flush=True); continue
    rc0, out0 = demo(d)
    subprocess.run(["git", "-C", WT, "apply", patch], check=True)
    rc1, out1 = demo(d)
    base = subprocess.run(["python3", "/verif/tools/run_baseline.py", WT], capture_output=True, text=True)
    subprocess.run(["git", "-C", WT, "checkout", "--", "."]); subprocess.run(["git", "-C", WT, "clean", "-fdq"])
    ok = rc0 == 0 and (rc1 == 0 if harmless else rc1 not in (0, -9)) and base.returncode == 0
    results[sid] = dict(ok=ok, demo_unchanged_rc=rc0, demo_patched_rc=rc1, baseline_rc=base.returncode, baseline=base.stdout.strip().splitlines()[:1], patched_tail=out1[-300:])
    print(sid, "OK" if ok else "REJECTED", rc0, rc1, base.returncode, flush=True)
    if ok:
        dst = os.path.join("/verif/seeded_harmless" if harmless else "/verif/seeded", sid)
        os.makedirs(dst, exist_ok=True)
        for f in ("patch.diff", "demo.py"):
            shutil.copy(os.path.join(d, f), dst)
        try: meta = json.load(open(os.path.join(d, "meta.json")))
        except Exception: meta = {}
        meta["validated_by_main_session"] = dict(worktree="scratch worktree of /repo HEAD (removed afterwards)",
            ran=["cd <wt> && PYTHONPATH=<wt> /venv/bin/python demo.py  (unchanged): rc=%d" % rc0,
                 "git apply patch.diff; same demo: rc=%d" % rc1, "python3 /verif/tools/run_baseline.py <wt>: rc=%d %s" % (base.returncode, base.stdout.strip().splitlines()[0] if base.stdout.strip() else "")])
        json.dump(meta, open(os.path.join(dst, "meta.json"), "w"), indent=1)
subprocess.run(["git", "-C", "/repo", "worktree", "remove", "--force", WT])
json.dump(results, open(os.environ.get("VAL_OUT", "/tmp/seed_validation.json"), "w"), indent=1)
