#!/usr/bin/env python3
"""Regenerate the seeded-changes table of DESIGN.md (between the SEEDED-TABLE markers) from seeded/RESULTS.json and the
seeds' meta.json files."""
import json, os, re
ROOT = os.path.dirname(os.path.dirname(os.path.abspath(__file__)))
res = json.load(open(os.path.join(ROOT, "seeded", "RESULTS.json")))
rows = ["| seed | file(s) changed | what the change does (from the seed's meta) | verdict of the property's quick check | failing obligations (first) |", "|---|---|---|---|---|"]
det = tot = 0
for sid in sorted(res):
    d = os.path.join(ROOT, "seeded", sid)
    if not os.path.isdir(d):
        continue
    r = res[sid]
    try:
        meta = json.load(open(os.path.join(d, "meta.json")))
    except Exception:
        meta = {}
    patch = open(os.path.join(d, "patch.diff")).read()
    files = sorted({m.split("/")[-1] for m in re.findall(r"^\+\+\+ b/(\S+)", patch, re.M)})
    summ = (meta.get("summary") or "").replace("|", "/").replace("\n", " ")
    summ = summ[:230] + ("…" if len(summ) > 230 else "")
    tot += 1
    if r.get("exit") == 1:
        det += 1
        verdict = "VIOLATION" + (" (replayed input)" if r.get("replayed") else " (no-failing-input-found)")
    elif not r.get("applied", True):
        verdict = "patch does not apply"
    else:
        verdict = {0: "MISSED (exit 0)", 2: "undecided (exit 2)", 3: "checker failure (exit 3)"}.get(r.get("exit"), str(r.get("exit")))
    obl = "; ".join(o.split("/", 1)[-1][-110:] for o in (r.get("failed_obligations") or [])[:2]).replace("|", "/")
    rows.append(f"| {sid} | {', '.join(files)[:70]} | {summ} | {verdict} | {obl} |")
table = "\n".join(rows) + f"\n\nDetected: {det} of {tot} (quick check of the seed's own property, exit 1 with a VIOLATION line).\n"
# harmless refactorings: the check must not alarm
hp = os.path.join(ROOT, "seeded_harmless", "RESULTS.json")
if os.path.exists(hp):
    hres = json.load(open(hp))
    hrows = ["| harmless change | file(s) changed | what was refactored | verdict of the property's quick check |", "|---|---|---|---|"]
    n0 = n2 = bad = 0
    for sid in sorted(hres):
        d = os.path.join(ROOT, "seeded_harmless", sid)
        if not os.path.isdir(d):
            continue
        try:
            meta = json.load(open(os.path.join(d, "meta.json")))
        except Exception:
            meta = {}
        patch = open(os.path.join(d, "patch.diff")).read()
        files = sorted({m.split("/")[-1] for m in re.findall(r"^\+\+\+ b/(\S+)", patch, re.M)})
        summ = (meta.get("summary") or "").replace("|", "/").replace("\n", " ")
        summ = summ[:200] + ("…" if len(summ) > 200 else "")
        ex = hres[sid].get("exit")
        if ex == 0:
            n0 += 1; verdict = "held (exit 0)"
        elif ex == 2:
            n2 += 1; verdict = "undecided (exit 2): " + "; ".join(x for x in [str(hres[sid].get("undecided")) + " function(s) outside the subset / invariant names a renamed local"] )
        else:
            bad += 1; verdict = f"ALARM (exit {ex})"
        hrows.append(f"| {sid} | {', '.join(files)[:60]} | {summ} | {verdict} |")
    table += "\n" + "\n".join(hrows) + f"\n\nHarmless changes without alarm: {n0 + n2} of {n0 + n2 + bad} (exit 0: {n0}; undecided, exit 2: {n2}; alarms: {bad}).\n"
p = os.path.join(ROOT, "DESIGN.md")
s = open(p).read()
b, e = "<!-- SEEDED-TABLE-BEGIN -->", "<!-- SEEDED-TABLE-END -->"
if b in s:
    s = s[:s.index(b) + len(b)] + "\n" + table + s[s.index(e):]
else:
    s = s.replace("SEEDED_TABLE_PLACEHOLDER", b + "\n" + table + e)
open(p, "w").write(s)
print(f"table written: {det}/{tot}")
