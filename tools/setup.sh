#!/bin/bash
# Build the overlay interpreter: python 3.12 (same as /venv) + z3-solver/cvc5 from the offline wheelhouse,
# with /venv's site-packages (the repository's own dependencies, and /repo as editable install) appended.
set -e
cd "$(dirname "$0")/.."
if [ ! -x .venv/bin/python ] || ! .venv/bin/python -c "import z3, cvc5, jsonschema, graphql" 2>/dev/null; then
  rm -rf .venv
  /venv/bin/python -m venv .venv
  PIP_NO_INDEX=1 .venv/bin/pip install -q --no-index --find-links /opt/veriftools/wheels z3-solver cvc5 jsonschema
  echo "import site; site.addsitedir('/venv/lib/python3.12/site-packages')" > .venv/lib/python3.12/site-packages/_repo_overlay.pth
fi
.venv/bin/python -c "import z3, cvc5, graphql, pydantic, ariadne_codegen; print('setup ok', z3.get_version_string())"
