#!/usr/bin/env python3
"""Apply every kept seeded change (seeded/<id>/patch.diff) to /repo, run the quick check of the property it breaks (and
of the other properties listed in its meta, if any), record the verdict, undo the change.  Writes seeded/RESULTS.json."""
import json, os, re, subprocess, sys, time
ROOT = os.path.dirname(os.path.dirname(os.path.abspath(__file__)))
only = sys.argv[1:]
RES = os.path.join(ROOT, "seeded", "RESULTS.json")
res = json.load(open(RES)) if only and os.path.exists(RES) else {}
for sid in sorted(os.listdir(os.path.join(ROOT, "seeded"))):
    d = os.path.join(ROOT, "seeded", sid)
    patch = os.path.join(d, "patch.diff")
    if not os.path.isfile(patch) or (only and sid not in only):
        continue
    pid = sid.split("_")[0]
    if subprocess.run(["git", "-C", "/repo", "status", "--porcelain", "--untracked-files=no"], capture_output=True, text=True).stdout.strip():
        print("refusing: /repo has uncommitted changes"); sys.exit(2)
    if subprocess.run(["git", "-C", "/repo", "apply", patch], capture_output=True).returncode != 0:
        res[sid] = dict(property=pid, applied=False); print(sid, "patch does not apply"); continue
    try:
        t0 = time.time()
        r = subprocess.run([os.path.join(ROOT, ".venv/bin/python"), "-m", "pyvc.check", pid, "--tier", "quick"], cwd=ROOT, capture_output=True, text=True, timeout=3600)
        out = r.stdout
        viol = [l for l in out.splitlines() if l.startswith("VIOLATION")]
        obls = [l.split("obligation failed: ")[1] for l in out.splitlines() if l.startswith("obligation failed: ")]
        res[sid] = dict(property=pid, applied=True, exit=r.returncode, violation_lines=len(viol), failed_obligations=sorted(set(obls))[:6],
                        replayed=any("no-failing-input-found" not in l for l in viol), undecided=out.count("UNDECIDED:"), seconds=round(time.time() - t0, 1))
        print(sid, "exit", r.returncode, "violations", len(viol), "undecided", out.count("UNDECIDED:"), flush=True)
    finally:
        subprocess.run(["git", "-C", "/repo", "checkout", "--", "."])
        subprocess.run(["git", "-C", "/repo", "clean", "-fdq", "--", "ariadne_codegen"])
json.dump(res, open(RES, "w"), indent=1, sort_keys=True)
det = sum(1 for v in res.values() if v.get("exit") == 1)
print(f"detected {det} of {len(res)}")
