#!/usr/bin/env python3
"""Run the pinned suite in a tree (default /repo) and compare with /root/.vp/BASELINE.json stable_pass.
usage: run_baseline.py [tree]   exit 0 iff every stable-pass test passes."""
import json, os, subprocess, sys, tempfile, xml.etree.ElementTree as ET
tree = sys.argv[1] if len(sys.argv) > 1 else "/repo"
base = json.load(open("/root/.vp/BASELINE.json"))
with tempfile.TemporaryDirectory() as d:
    out = os.path.join(d, "j.xml")
    env = dict(os.environ); env.pop("ARIADNE_CODEGEN_VERIF", None)
    subprocess.run(["/venv/bin/python", "-m", "pytest", "-q", "-p", "no:cacheprovider", "--timeout=900",
                    "--continue-on-collection-errors", "--junitxml=" + out], cwd=tree, env=env,
                   stdout=subprocess.DEVNULL, stderr=subprocess.DEVNULL)
    passed = set()
    for tc in ET.parse(out).getroot().iter("testcase"):
        if tc.find("failure") is None and tc.find("error") is None and tc.find("skipped") is None:
            passed.add(((tc.get("classname") or "") + "::" + (tc.get("name") or "")).replace(os.path.realpath(tree), "/repo"))
missing = [t for t in base["stable_pass"] if t not in passed]
print(f"stable_pass={len(base['stable_pass'])} passed_now={len(passed)} missing={len(missing)}")
for t in missing[:20]: print("  MISSING", t)
sys.exit(1 if missing else 0)
